#!/usr/bin/env python3
# Regenerates /verif/MANIFEST.json from the table below (single source of
# truth for what is claimed).  Run after adding a rule module.
import json
import os
import sys

VERIF = os.path.dirname(os.path.dirname(os.path.abspath(__file__)))
sys.path.insert(0, os.path.join(VERIF, "sa"))
import claims  # noqa: E402

import glob
for fn in sorted(glob.glob(os.path.join(VERIF, "sa", "claims.d", "*.json"))):
    with open(fn) as f:
        for k, v in json.load(f).items():
            claims.CLAIMS[k] = v        # a claims.d file (maintained next to its rule module) overrides claims.py
            if "note" in v and not v["note"].startswith("Trusted base"):
                v["note"] = claims.TB + v["note"]

import prereq  # noqa: E402
for pid, lst in prereq.PREREQUISITES.items():
    c = claims.CLAIMS.get(pid)
    if c:
        c["text"] = c["text"].rstrip() + " Prerequisites taken over from other rule modules (sa/prereq.py; labelled prerequisite_from in the evidence): " + \
            "; ".join("%s - %s" % (pred.desc, reason) for (_, reason, pred) in lst) + "."
        if "prerequisite" not in c["technique"]:
            c["technique"] = c["technique"] + "; prerequisite rule instances of " + ", ".join(sorted({l for l, _, _ in lst})) + " (same analyses, run by this check)"

props = {}
with open(os.path.join(VERIF, "properties.jsonl")) as f:
    for line in f:
        p = json.loads(line)
        props[p["id"]] = p

checks = []
na = []
for pid in sorted(props):
    c = claims.CLAIMS.get(pid)
    if c is None or pid not in claims.READY or not os.path.exists(os.path.join(VERIF, "sa", "rules", pid.lower() + ".py")):
        na.append({"property_id": pid,
                   "reason": (c or {}).get("na_reason", "check not built yet in this session (see DESIGN.md section 7 for the planned rules)")})
        continue
    checks.append({
        "property_id": pid,
        "quick_cmd": "./vcheck %s quick" % pid,
        "thorough_cmd": "./vcheck %s thorough" % pid,
        "evidence_file": "/verif/evidence/%s.json" % pid,
        "replay_cmd_template": "./vcheck --replay {path}",
        "engine": "sa",
        "level_claimed": {
            "category": "other",
            "text": c["text"],
            "design_ref": "DESIGN.md section 7, %s" % pid,
        },
        "level_note": c["note"],
        "technique": c["technique"],
    })

man = {
    "version": 1,
    "setup_cmd": "mkdir -p /verif/evidence/replay",
    "hooks": {
        "guard": "OSMOCOM_BB_VERIF",
        "enable": "none: static analysis reads the source tree, no instrumentation of /repo is needed (guard variable declared for completeness, unused)",
        "baseline_off_cmd": "cd /repo && /venv/bin/python -m pytest -ra -q -p no:cacheprovider --timeout=900 --continue-on-collection-errors",
        "source_commits": [],
        "add_only": True,
    },
    "engines": [{
        "name": "sa",
        "path": "/verif/sa",
        "serves_properties": [c["property_id"] for c in checks],
        "kind_free_text": "repository-specific static analysis: Python ast + own CFG/dominance/guard-literal/interval/layout engines; C via clang -ast-dump=json; reference tables in /verif/spec",
    }],
    "checks": checks,
    "not_applicable": na,
    "notes": "Technique family: static analysis only. Every check re-parses /repo's working tree on each run; exit 2 + ANALYSIS-ERROR means no verdict (anchor vanished / unclassifiable), never a pass. Known findings: /verif/known_findings.json.",
}
with open(os.path.join(VERIF, "MANIFEST.json"), "w") as f:
    json.dump(man, f, indent=1)
print("MANIFEST.json: %d checks, %d not_applicable" % (len(checks), len(na)))
