#!/usr/bin/env python3
# usage: tools/try_seed.py <patch.diff> [props...]
# Applies the patch to a scratch copy of /repo's analysed subtrees and runs the checks there
# (no write to /repo, so concurrently running checks are not disturbed).
import hashlib, json, os, shutil, subprocess, sys
sys.path.insert(0, os.path.join(os.path.dirname(os.path.abspath(__file__)), "..", "sa"))
import selftest, claims
patch = sys.argv[1]
props = sys.argv[2:] or claims.READY
# development cache (never used by a registered check): the verdict of one check on one patch depends on the patch, /repo's
# HEAD, the engine, the rule module of the property and the rule modules it imports
DEPS = {"C01": ["c13"], "C04": ["c01", "c13", "c16", "c17"], "C07": ["c19"], "C16": ["c17"], "C17": ["c16"]}
DEPS_ORDER_LAST = ()
CACHE = os.environ.get("VERIF_TRY_CACHE", "/var/tmp/verif-trycache")
def _dig(paths):
    h = hashlib.sha256()
    paths = list(paths)
    for q in sorted(paths):
        h.update(q.encode()); h.update(open(q, "rb").read())
    return h.hexdigest()
def cache_key(p, tier):
    V = selftest.VERIF
    sa = os.path.join(V, "sa")
    eng = [os.path.join(sa, f) for f in os.listdir(sa) if f.endswith(".py")]
    eng += [os.path.join(V, "spec", f) for f in os.listdir(os.path.join(V, "spec"))] + [os.path.join(V, "known_findings.json"), os.path.join(V, "vcheck")]
    import prereq
    lenders = sorted({l.lower() for l, _r, _p in prereq.PREREQUISITES.get(p, [])})
    lend2 = sorted({q2 for q in lenders for q2 in DEPS.get(q.upper(), [])})
    rules = [os.path.join(sa, "rules", "%s.py" % q) for q in dict.fromkeys([p.lower()] + DEPS.get(p, []) + lenders + lend2)]
    head = subprocess.run(["git", "-C", "/repo", "rev-parse", "HEAD"], stdout=subprocess.PIPE, text=True).stdout.strip()
    dirty = subprocess.run(["git", "-C", "/repo", "status", "--porcelain", "-uno"], stdout=subprocess.PIPE, text=True).stdout.strip()
    if dirty:
        return None
    return hashlib.sha256("|".join([p, tier, head, _dig(eng), _dig(rules), _dig([os.path.abspath(patch)])]).encode()).hexdigest()
def show(p, rc, out):
    if rc != 0:
        print("== %s rc=%d" % (p, rc))
        for l in [l for l in out.splitlines() if not l.startswith(("VIOLATION", "KNOWN", "WARNING"))][:6]:
            print(l[:330])
tier = os.environ.get("TIER", "quick")
todo = []
keys = {}
for p in props:
    k = cache_key(p, tier) if CACHE != "off" else None
    keys[p] = k
    f = k and os.path.join(CACHE, k + ".json")
    if f and os.path.exists(f):
        keys[p] = json.load(open(f))
    else:
        todo.append(p)
if not todo:
    for p in props:
        show(p, keys[p]["rc"], keys[p]["out"])
    sys.exit(0)
d = selftest.make_scratch("/repo")
try:
    # break hard links of files the patch touches: patch(1) writes a new file by default (--backup off, rename)
    r = subprocess.run(["patch", "-p1", "-s", "-d", d, "-i", os.path.abspath(patch)], stdout=subprocess.PIPE, stderr=subprocess.STDOUT, text=True)
    if r.returncode != 0:
        print("patch does not apply:", r.stdout[:300]); sys.exit(2)
    env = dict(os.environ); env["VERIF_EVIDENCE_OUT"] = os.path.join(d, "ev.json")
    results = {}
    if len(todo) > 2 and os.environ.get("VERIF_TRY_MULTI", "1") == "1":
        # one process for all properties: a lender's rule groups run once for all the checks that borrow from it
        order = sorted(todo, key=lambda q: (q in DEPS_ORDER_LAST, q))
        r = subprocess.run([os.path.join(selftest.VERIF, "vcheck"), "--multi", ",".join(order), tier, "--repo", d],
                           stdout=subprocess.PIPE, stderr=subprocess.STDOUT, text=True, env=env)
        cur, buf = None, []
        for l in r.stdout.splitlines():
            if l.startswith("@@BEGIN "):
                cur, buf = l.split()[1], []
            elif l.startswith("@@END ") and cur:
                results[cur] = (int(l.split()[2]), "\n".join(buf))
                cur = None
            elif cur:
                buf.append(l)
    for p in props:
        if p not in todo:
            show(p, keys[p]["rc"], keys[p]["out"])
            continue
        if p in results:
            rc, out = results[p]
        else:
            r = subprocess.run([os.path.join(selftest.VERIF, "vcheck"), p, tier, "--repo", d], stdout=subprocess.PIPE, stderr=subprocess.STDOUT, text=True, env=env)
            rc, out = r.returncode, r.stdout
        show(p, rc, out)
        if keys[p] and keys[p] == cache_key(p, tier):      # nothing the verdict depends on was edited while the check ran
            os.makedirs(CACHE, exist_ok=True)
            tmp = os.path.join(CACHE, "%s.%d.tmp" % (keys[p], os.getpid()))
            json.dump({"rc": rc, "out": "\n".join(out.splitlines()[:40])}, open(tmp, "w"))
            os.replace(tmp, os.path.join(CACHE, keys[p] + ".json"))
finally:
    shutil.rmtree(d, ignore_errors=True)
