#!/usr/bin/env python3
# usage: tools/try_seed.py <patch.diff> [props...]
# Applies the patch to a scratch copy of /repo's analysed subtrees and runs the checks there
# (no write to /repo, so concurrently running checks are not disturbed).
import os, shutil, subprocess, sys
sys.path.insert(0, os.path.join(os.path.dirname(os.path.abspath(__file__)), "..", "sa"))
import selftest, claims
patch = sys.argv[1]
props = sys.argv[2:] or claims.READY
d = selftest.make_scratch("/repo")
try:
    # break hard links of files the patch touches: patch(1) writes a new file by default (--backup off, rename)
    r = subprocess.run(["patch", "-p1", "-s", "-d", d, "-i", os.path.abspath(patch)], stdout=subprocess.PIPE, stderr=subprocess.STDOUT, text=True)
    if r.returncode != 0:
        print("patch does not apply:", r.stdout[:300]); sys.exit(2)
    env = dict(os.environ); env["VERIF_EVIDENCE_OUT"] = os.path.join(d, "ev.json")
    tier = os.environ.get("TIER", "quick")
    for p in props:
        r = subprocess.run([os.path.join(selftest.VERIF, "vcheck"), p, tier, "--repo", d], stdout=subprocess.PIPE, stderr=subprocess.STDOUT, text=True, env=env)
        if r.returncode != 0:
            print("== %s rc=%d" % (p, r.returncode))
            for l in [l for l in r.stdout.splitlines() if not l.startswith(("VIOLATION", "KNOWN", "WARNING"))][:6]:
                print(l[:330])
finally:
    shutil.rmtree(d, ignore_errors=True)
