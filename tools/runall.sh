#!/bin/sh
# Runs every registered check (quick, or $1 tier) on /repo and prints a summary.
cd "$(dirname "$0")/.."
tier=${1:-quick}
fail=0
for p in $(python3 -c "import sys; sys.path.insert(0,'sa'); import claims; print(' '.join(claims.READY))"); do
	out=$(./vcheck $p $tier 2>&1); rc=$?
	echo "$out" | tail -1 | cut -c1-160
	[ $rc -ne 0 ] && { echo "  -> rc=$rc"; echo "$out" | grep -E "VIOLATION|ANALYSIS-ERROR" | head -5; fail=1; }
done
exit $fail
