#!/usr/bin/env python3
# Re-runs the checks (tools/try_seed.py, current /verif) on the given stored seeds / twins and updates their entries in
# seeded/INDEX.json / twins/INDEX.json and their meta.json - for items fixed after a full matrix (tools/update_seed_meta.py).
import json, os, subprocess, sys, concurrent.futures as cf
V = os.path.dirname(os.path.dirname(os.path.abspath(__file__)))
def run(item):
    kind = "seeded" if os.path.isdir(os.path.join(V, "seeded", item)) else "twins"
    p = subprocess.run([sys.executable, os.path.join(V, "tools", "try_seed.py"), os.path.join(V, kind, item, "patch.diff")],
                       stdout=subprocess.PIPE, stderr=subprocess.STDOUT, text=True)
    fire, nov, first, cur = [], [], {}, None
    for l in p.stdout.splitlines():
        if l.startswith("== "):
            prop, rc = l[3:].split(" rc=")
            cur = prop
            (fire if rc.strip() == "1" else nov).append(prop)
        elif cur and cur not in first and "[C" in l:
            first[cur] = l[:300]
    return item, kind, fire, nov, first
items = sys.argv[1:]
sidx = json.load(open(os.path.join(V, "seeded", "INDEX.json")))
tidx = json.load(open(os.path.join(V, "twins", "INDEX.json")))
with cf.ThreadPoolExecutor(max_workers=12) as ex:
    for item, kind, fire, nov, first in ex.map(run, items):
        mp = os.path.join(V, kind, item, "meta.json")
        m = json.load(open(mp))
        if kind == "seeded":
            m["checks_that_fire"], m["checks_without_verdict"], m["first_report"] = fire, nov, first
            json.dump(m, open(mp, "w"), indent=1)
            sidx[item] = {"property": m.get("property"), "title": m.get("title"), "fires": fire, "no_verdict": nov}
        else:
            tidx[item] = {"title": m.get("title"), "false_alarms": fire, "no_verdict": nov}
        print(item, fire, nov)
json.dump(sidx, open(os.path.join(V, "seeded", "INDEX.json"), "w"), indent=1)
json.dump(tidx, open(os.path.join(V, "twins", "INDEX.json"), "w"), indent=1)
