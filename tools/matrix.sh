#!/bin/sh
# status matrix: every stored twin must be silent, every stored seed should fire (rc=1)
cd "$(dirname "$0")/.."
echo "== twins (expect no output)"
for d in twins/*/; do id=$(basename $d); out=$(python3 tools/try_seed.py $d/patch.diff 2>/dev/null | grep "^== " | tr '\n' ' '); [ -n "$out" ] && echo "twin $id: $out"; done
echo "== seeds (expect rc=1 somewhere)"
for d in seeded/*/; do id=$(basename $d); out=$(python3 tools/try_seed.py $d/patch.diff 2>/dev/null | grep "^== " | tr '\n' ' '); echo "$out" | grep -q "rc=1" || echo "seed $id: NOT FIRED: $out"; done
