#!/usr/bin/env python3
# usage: tools/confirm_seed.py <seed dir (patch.diff, demo.py|run.sh, meta.json)> <scratch worktree> <id>
# Confirms a seeded breaking change independently: demo passes on the clean worktree, the patch applies, the
# baseline test suite still passes with it, the demo fails with it; then runs our checks against a scratch copy
# and stores everything under /verif/seeded/<id>/.
import json, os, shutil, subprocess, sys
VERIF = os.path.dirname(os.path.dirname(os.path.abspath(__file__)))
sd, wt, sid = sys.argv[1], sys.argv[2], sys.argv[3]
def sh(cmd, cwd=None, timeout=900):
    p = subprocess.run(cmd, shell=True, cwd=cwd, stdout=subprocess.PIPE, stderr=subprocess.STDOUT, timeout=timeout)
    return p.returncode, p.stdout.decode("utf-8", "replace")
def demo():
    if os.path.exists(os.path.join(sd, "run.sh")):
        return sh("WT=%s sh %s/run.sh" % (wt, sd), cwd=sd)
    return sh("PYTHONPATH=. /venv/bin/python %s/demo.py" % sd, cwd=os.path.join(wt, "src/target/trx_toolkit"))
def tests():
    rc, out = sh("/venv/bin/python -m pytest -q -p no:cacheprovider --timeout=900 src/target/trx_toolkit 2>&1 | tail -3", cwd=wt)
    return out.strip().splitlines()[-1] if out.strip() else "?"
rc, out = sh("git status --porcelain", cwd=wt)
if out.strip():
    print("worktree dirty:", out); sys.exit(2)
# bring the worktree to /repo's HEAD
head = subprocess.run("git -C /repo rev-parse HEAD", shell=True, stdout=subprocess.PIPE, text=True).stdout.strip()
sh("git checkout -q --detach %s" % head, cwd=wt)
res = {}
rc0, o0 = demo()
res["demo_clean"] = {"rc": rc0, "tail": o0[-300:]}
rc, o = sh("git apply %s/patch.diff" % sd, cwd=wt)
if rc != 0:
    # the tree has moved (fix commits): try 3-way / fuzzy patch
    rc, o = sh("patch -p1 -s -i %s/patch.diff" % sd, cwd=wt)
res["applies"] = (rc == 0)
if rc != 0:
    sh("git checkout -- .", cwd=wt); print(sid, "patch does not apply:", o[-200:]); sys.exit(1)
res["tests_with_patch"] = tests()
rc1, o1 = demo()
res["demo_patched"] = {"rc": rc1, "tail": o1[-300:]}
sh("git checkout -- . && git clean -fdq", cwd=wt)
ok = rc0 == 0 and rc1 != 0 and ("47 passed" in res["tests_with_patch"] or "48 passed" in res["tests_with_patch"])
res["confirmed"] = ok
# our checks
p = subprocess.run([sys.executable, os.path.join(VERIF, "tools", "try_seed.py"), os.path.join(sd, "patch.diff")],
                   stdout=subprocess.PIPE, stderr=subprocess.STDOUT, text=True)
caught, lines = [], []
for l in p.stdout.splitlines():
    if l.startswith("== "):
        caught.append(l[3:].strip())
    elif "[C" in l and "]" in l:
        lines.append(l[:260])
res["caught_by"] = caught
res["first_reports"] = lines[:4]
dst = os.path.join(VERIF, "seeded", sid)
os.makedirs(dst, exist_ok=True)
for f in os.listdir(sd):
    if f != "meta.json" and not f.startswith("out_") and os.path.isfile(os.path.join(sd, f)) and os.path.getsize(os.path.join(sd, f)) < 200000:
        shutil.copy2(os.path.join(sd, f), os.path.join(dst, f))
meta = {}
try:
    meta = json.load(open(os.path.join(sd, "meta.json")))
except Exception:
    pass
meta["verification_by_framework_author"] = res
meta["what_was_run"] = ["demo on clean worktree at /repo HEAD %s" % head[:7], "git apply patch.diff", "pytest src/target/trx_toolkit", "demo with patch", "tools/try_seed.py patch.diff (all registered checks on a scratch copy)"]
json.dump(meta, open(os.path.join(dst, "meta.json"), "w"), indent=1)
print("%-12s confirmed=%s demo %d->%d tests[%s] caught_by=%s" % (sid, ok, rc0, rc1, res["tests_with_patch"][:40], caught))
