#!/usr/bin/env python3
# Re-runs every registered check on every stored seed (scratch copies) and records, in seeded/<id>/meta.json,
# which checks fire (rc=1) / give no verdict (rc=2).  Also writes seeded/INDEX.json and twins/INDEX.json.
import json, os, subprocess, sys, concurrent.futures as cf
V = os.path.dirname(os.path.dirname(os.path.abspath(__file__)))
def run(d):
    p = subprocess.run([sys.executable, os.path.join(V, "tools", "try_seed.py"), os.path.join(d, "patch.diff")],
                       stdout=subprocess.PIPE, stderr=subprocess.STDOUT, text=True)
    fire, nov, first = [], [], {}
    cur = None
    for l in p.stdout.splitlines():
        if l.startswith("== "):
            prop, rc = l[3:].split(" rc=")
            cur = prop
            (fire if rc.strip() == "1" else nov).append(prop)
        elif cur and cur not in first and "[" + cur in l:
            first[cur] = l[:300]
    return d, fire, nov, first
seeds = sorted(os.path.join(V, "seeded", x) for x in os.listdir(os.path.join(V, "seeded")) if os.path.isdir(os.path.join(V, "seeded", x)))
twins = sorted(os.path.join(V, "twins", x) for x in os.listdir(os.path.join(V, "twins")) if os.path.isdir(os.path.join(V, "twins", x)))
idx = {}
with cf.ThreadPoolExecutor(max_workers=14) as ex:
    for d, fire, nov, first in ex.map(run, seeds):
        mp = os.path.join(d, "meta.json")
        m = json.load(open(mp))
        m["checks_that_fire"] = fire
        m["checks_without_verdict"] = nov
        m["first_report"] = first
        json.dump(m, open(mp, "w"), indent=1)
        idx[os.path.basename(d)] = {"property": m.get("property"), "title": m.get("title"), "fires": fire, "no_verdict": nov}
        print(os.path.basename(d), fire, nov)
json.dump(idx, open(os.path.join(V, "seeded", "INDEX.json"), "w"), indent=1)
tidx = {}
with cf.ThreadPoolExecutor(max_workers=14) as ex:
    for d, fire, nov, first in ex.map(run, twins):
        m = json.load(open(os.path.join(d, "meta.json")))
        tidx[os.path.basename(d)] = {"title": m.get("title"), "false_alarms": fire, "no_verdict": nov}
        if fire or nov:
            print("TWIN", os.path.basename(d), fire, nov)
json.dump(tidx, open(os.path.join(V, "twins", "INDEX.json"), "w"), indent=1)
