#!/usr/bin/env python3
# Generates a maintenance prompt for the owner (sub-agent) of one rule module from the previous prompt of that module:
#   gen_maint.py <PROP> <previous prompt file> <out file> <scratch tag> <item>...
# item = "<seed-or-twin id>|<status text>|<hint>"   (twin ids live under /verif/twins and are marked TWIN)
import json, os, re, sys
prop, prev, out, tag = sys.argv[1:5]
items = sys.argv[5:]
p = open(prev).read()
head_end = p.index("\n - ")
tail_start = p.index("\nHow to run a check against a seed")
head, tail = p[:head_end], p[tail_start:]
body = ""
for it in items:
    sid, status, hint = (it.split("|") + ["", ""])[:3]
    twin = os.path.isdir("/verif/twins/" + sid)
    m = json.load(open("/verif/%s/%s/meta.json" % ("twins" if twin else "seeded", sid)))
    if twin:
        body += "\n - TWIN %s (%s): %s. Why the properties still hold: %s" % (sid, status, m.get("title", ""), str(m.get("why_properties_still_hold", ""))[:900])
    else:
        body += "\n - %s (%s): %s. Breaks: %s Needs: %s" % (sid, status, m.get("title", ""), m.get("what_breaks", ""), m.get("needs_to_manifest", ""))
    if hint:
        body += "\n   " + hint
tail = re.sub(r"/var/tmp/c\d\d-maint\d+", "/var/tmp/%s-maint%s" % (prop.lower(), tag), tail)
open(out, "w").write(head + body + "\n" + tail)
print(out, len(head + body + tail))
