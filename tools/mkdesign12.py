#!/usr/bin/env python3
# Regenerates section 12 of DESIGN.md from tools/design_section12.md (text with the placeholders SEED_TABLE,
# TWIN_SUMMARY, COUNTS) and the seed / twin indexes written by tools/update_seed_meta.py.
import json, os, re
V = os.path.dirname(os.path.dirname(os.path.abspath(__file__)))
txt = open(os.path.join(V, "tools", "design_section12.md")).read()
idx = json.load(open(os.path.join(V, "seeded", "INDEX.json")))
tidx = json.load(open(os.path.join(V, "twins", "INDEX.json")))
rows = ["| seed | breaks | change | reported by (exit 1) |", "|------|--------|--------|----------------------|"]
for k in sorted(idx):
    v = idx[k]
    title = (v.get("title") or "")
    if not title:
        try:
            m = json.load(open(os.path.join(V, "seeded", k, "meta.json")))
            title = m.get("title") or m.get("summary") or m.get("what") or ""
        except Exception:
            title = ""
    title = re.sub(r"\s+", " ", str(title)).replace("|", "/")[:110]
    rows.append("| %s | %s | %s | %s |" % (k, v.get("property") or k[:3].upper(), title, ", ".join(v["fires"]) or "**none**" + (
        " (no verdict: %s)" % ", ".join(v["no_verdict"]) if v.get("no_verdict") else "")))
fa = {k: v for k, v in tidx.items() if v["false_alarms"]}
nv = {k: v for k, v in tidx.items() if v["no_verdict"] and not v["false_alarms"]}
groups = {}
for k in tidx:
    m_ = __import__("re").match(r"evo(\d*)-", k)
    g = ("evolution round %s" % (m_.group(1) or "1")) if m_ else "reclassified seeds" if k.startswith("seed") else "refactoring twins"
    groups.setdefault(g, [0, 0, 0])
    groups[g][0] += 1
    groups[g][1] += 1 if tidx[k]["false_alarms"] else 0
    groups[g][2] += 1 if (tidx[k]["no_verdict"] and not tidx[k]["false_alarms"]) else 0
ts = ["| group | changes | with a false alarm (exit 1) | only without verdict (exit 2) |", "|---|---|---|---|"]
for g in sorted(groups):
    ts.append("| %s | %d | %d | %d |" % (g, groups[g][0], groups[g][1], groups[g][2]))
if fa:
    ts.append("")
    ts.append("Remaining false alarms: " + "; ".join("%s (%s)" % (k, ", ".join(v["false_alarms"])) for k, v in sorted(fa.items())))
if nv:
    ts.append("")
    ts.append("Changes on which some check gives no verdict (exit 2): " + "; ".join("%s (%s)" % (k, ", ".join(v["no_verdict"])) for k, v in sorted(nv.items())))
nfire = sum(1 for v in idx.values() if v["fires"])
nown = sum(1 for k, v in idx.items() if (v.get("property") or k[:3].upper()) in v["fires"])
counts = "%d of %d seeds reported with exit 1 by at least one check, %d of them by the check of the property the seed was written against; %d twins / evolutions, %d with a false alarm, %d only without verdict" % (
    nfire, len(idx), nown, len(tidx), len(fa), len(nv))
txt = txt.replace("SEED_TABLE", "\n".join(rows)).replace("TWIN_SUMMARY", "\n".join(ts)).replace("COUNTS", counts)
d = open(os.path.join(V, "DESIGN.md")).read()
i = d.index("\n## 12. Build report")
j = d.index("\n## Appendix A.")
open(os.path.join(V, "DESIGN.md"), "w").write(d[:i] + txt.rstrip("\n") + "\n" + d[j:])
print("DESIGN.md section 12 regenerated:", counts)
