#!/usr/bin/env python3
# Generates the prompts of the next adversarial round from those of the previous one:
#   gen_round.py seed <old> <new>   (/tmp/seed<old>-cNN/PROMPT.txt -> /tmp/seed<new>-cNN/PROMPT.txt, worktree /tmp/wt<new>-cNN)
#   gen_round.py evo  <old> <new>   (/tmp/evo<old>-eK/PROMPT.txt  -> /tmp/evo<new>-eK/PROMPT.txt,  worktree /tmp/we<new>-eK)
# The titles of the previous round's submissions are appended to the "already known" list, so each round has to find new ideas.
import json, os, re, shutil, subprocess, sys
kind, old, new = sys.argv[1], sys.argv[2], sys.argv[3]
ORD = {7: "a seventh", 8: "an eighth", 9: "a ninth", 10: "a tenth", 11: "an eleventh", 12: "a twelfth", 13: "a thirteenth"}
if kind == "seed":
    ids = ["c%02d" % i for i in range(1, 21)]
    for c in ids:
        od, nd, wt = "/tmp/seed%s-%s" % (old, c), "/tmp/seed%s-%s" % (new, c), "/tmp/wt%s-%s" % (new, c)
        p = open(od + "/PROMPT.txt").read()
        tail = "Never use git stash"
        i = p.rindex(tail)
        body, last = p[:i], p[i:]
        for n in (1, 2, 3):
            mp = "%s/%d/meta.json" % (od, n)
            if os.path.exists(mp):
                t = json.load(open(mp)).get("title", "")
                body += "- %s\n" % t[:300].replace("\n", " ")
        p = body + last
        p = p.replace("seed%s-" % old, "seed%s-" % new).replace("wt%s-" % old, "wt%s-" % new)
        p = p.replace(ORD[int(old)] + " round", ORD[int(new)] + " round")
        os.makedirs(nd, exist_ok=True)
        for n in (1, 2, 3):
            os.makedirs("%s/%d" % (nd, n), exist_ok=True)
        open(nd + "/PROMPT.txt", "w").write(p)
        if not os.path.exists(wt):
            subprocess.run(["git", "-C", "/repo", "worktree", "add", "--detach", wt, "HEAD"], check=True, stdout=subprocess.DEVNULL, stderr=subprocess.DEVNULL)
else:
    for k in range(1, 8):
        od, nd, wt = "/tmp/evo%s-e%d" % (old, k), "/tmp/evo%s-e%d" % (new, k), "/tmp/we%s-e%d" % (new, k)
        p = open(od + "/PROMPT.txt").read()
        tail = "Never use git stash"
        i = p.rindex(tail)
        body, last = p[:i], p[i:]
        for n in range(1, 7):
            mp = "%s/%d/meta.json" % (od, n)
            if os.path.exists(mp):
                t = json.load(open(mp)).get("title", "")
                body += " - %s\n" % t[:300].replace("\n", " ")
        p = body + last
        p = p.replace("evo%s-" % old, "evo%s-" % new).replace("we%s-" % old, "we%s-" % new)
        os.makedirs(nd, exist_ok=True)
        for n in range(1, 7):
            os.makedirs("%s/%d" % (nd, n), exist_ok=True)
        open(nd + "/PROMPT.txt", "w").write(p)
        shutil.copy(od + "/PROPS.txt", nd + "/PROPS.txt")
        if not os.path.exists(wt):
            subprocess.run(["git", "-C", "/repo", "worktree", "add", "--detach", wt, "HEAD"], check=True, stdout=subprocess.DEVNULL, stderr=subprocess.DEVNULL)
