# What each check claims (consumed by tools/mkmanifest.py).  `text` names the
# decided clauses, `note` the not-decided ones and the trusted base.

TB = ("Trusted base: Python's ast / clang 14's parser, the checker's own CFG, "
      "dominance and abstract domains (exercised by the self-test corpus), "
      "/verif/spec reference tables. ")

# properties whose check is finished and registered in MANIFEST.json
READY = ["C%02d" % i for i in range(1, 21)]

CLAIMS = {
    "C02": {
        "technique": "static guard-set (edge-dominator) analysis on the statement CFG + who-may-call scan",
        "text": "Decides the routing decision itself for all configurations and frame numbers: the delivery call in "
                "BurstForwarder.forward_msg is reached exactly under {peer is not sender, peer.running, peer Rx freq(FN) == "
                "sender Tx freq(FN)}, once per peer, over the full list; frequency resolvers return the fixed value iff no "
                "hopping else element 0/1 of resolve(fn); SETFH builds (Rx,Tx) pairs in documented order; non-running "
                "transceivers do not transmit; every transceiver ticks; only the forwarder delivers. The list object handed to the forwarder stays the registration list: no owner attribute on the path to it is rebound by code that can run after the hand-over (R6); SETFH pairing is also folded for non-monotone witness channel lists. The getters are decided by folding them over {hopping, not hopping} with opaque frequencies; enable_fh over both outcomes of the HoppingParams constructor (a refused SETFH leaves the configuration in use). R3's dispatcher clause is decided by folding Application.clck_handler for two ticks with three registered transceivers as recording oracles (each ticks once per frame with the forwarder and the frame number). R8 also folds Transceiver.enable_fh() itself with modelled objects: parameters differing in HSN, MAIO, one channel or the channel order end up installed. R2 includes SETFH with 33 and 64 channel pairs; the tick dispatcher is folded for tick() results None / 0 / 1 / True.",
        "note": TB + "Not decided: correctness of HoppingParams.resolve (C07), what the recipient does after delivery (C10, C18).",
    },
    "C03": {
        "technique": "lockset + who-may-write + guard-literal analysis; finite case split of the comparison-only tick classifier folded over boundary witnesses; modular-FN comparison lint",
        "text": "Decides the premises of the queue invariant for all schedules and histories: every _tx_queue access is under "
                "_tx_queue_lock (read and replace in one critical section); only append/clear/clck_tick write it; an arrival is "
                "enqueued exactly once iff parsed, version-matched and running; the tick classifier sends each queued message to "
                "exactly one of emit (FN equal) / stale (modular past) / wait (modular future) under every ordering incl. the "
                "hyperframe wrap; each due burst is forwarded once, each stale one logged; power-off clears every selected queue. Only the power-off handler may discard the queue (who-may-call over tx_queue_clear). R3 is decided by folding clck_tick() on witness queues around the hyperframe wrap (sent bursts with their own frame numbers, what stays queued, one report per passed burst); the partition-loop table is a structural record whose critical-section and stale-report clauses stay real obligations. R2 also folds tx_queue_append / tx_queue_clear on witness queues (same frame and timeslot queued once and twice): everything queued stays as it was and the new burst is queued as well.",
        "note": TB + "Not decided: exactly-once over all histories as such (induction over these premises is argued in DESIGN.md), fairness of the clock thread.",
    },
    "C13": {
        "technique": "accepted-set extraction by abstract interpretation (interval / None / enum-symbol domains) of the comparison-only validate() chain, exact box-set comparison with the range table; exception-class and dominance rules",
        "text": "Decides the iff of the statement for all field assignments at once: the set of (class, version, NOPE, modulation, "
                "field values incl. None) accepted by validate() equals the protocol ranges of spec/ranges.json exactly (both "
                "inclusions, per field and as a whole); every reachable rejection raises ValueError and cannot raise another class "
                "while building its message or comparing a None field; validate() dominates every buffer write of gen_msg; send() is "
                "unreachable from send_msg's rejection handler and nothing sends on a data interface bypassing send_msg. Validation conditions that call a pure repository function on one integer field are folded on critical points (purity of the callee checked). 'Sending' is closed over the self-calls of the interface's class family (a retry through send_msg counts). When the accepted-set extraction leaves its vocabulary, R1 is decided by folding validate() on 400 boundary witnesses (just inside / outside every range, None, foreign versions, burst lengths). R6: for one valid message per scenario and variants in the fields validate() ignores for that kind of message (left over from an earlier use, or None), gen_msg() is folded whenever validate() accepts: it produces a datagram (a check that lives only in the encoder refuses messages that validate). The witness fold of R1 shares one evaluation session (class-level / module-level state) across all witnesses.",
        "note": TB + "Fields are assumed to hold ints or None (the property's quantifier). Validity of burst *contents* is not constrained by the statement.",
    },
    "C12": {
        "technique": "who-may-write scans, guard-literal analysis, complete boolean decision tables of the clock-link / start-stop / POWERON / ready branches, linear normal forms of port expressions, lock-order / thread-join effect analysis on the name-resolved call graph",
        "text": "Decides for all configurations: `running` is written only by the constructor (False) and power_event_handler "
                "(= poweron) for [self + children] iff managing parent else [self]; power-off clears queue and hopping of each; the "
                "clock-link and generator start/stop actions equal the specified decision table over all 16 truth assignments, link "
                "update first; POWERON succeeds iff not running and ready (ready = tuned or hopping), POWEROFF always; only parse_cmd "
                "issues power events; interface ports are base+2*idx+{102,2}/{101,1} and base+{100,0} in UDPLink's (remote, bind) "
                "order; children get no clock and are linked to their parent; MS does not manage children. Application.trx_def (regular expression included) is folded for witness --trx definitions with 0..3-digit child indexes (R7). The transceiver factory (append_trx / append_child_trx) is folded with the constructor as recording oracle: every keyword reaches the constructor, parents get the shared clock, children none. R1 also confines the plain tuning state (_rx_freq / _tx_freq) to the constructor and the RXTUNE / TXTUNE handler (a resolved hopping frequency must not leak into it and survive POWEROFF). R10 (lock order): on the name-resolved call graph no `with <lock>` region reaches a join() of a thread whose own code takes the same lock (POWEROFF stopping the clock generator under the queue mutex would never return). R2 also pairs the containers tx_queue_append() fills with those tx_queue_clear() empties; R5 confines writers of remote_addr / remote_port / base_port to constructors; R3 is decided by folding the clock section of power_event_handler() over its 18-row decision space and CLCKGen.stop() for its two states (the decision tables over branch atoms are structural records). R6 is decided by folding Application.__init__ end to end for witness command lines (no --trx, child index 0, 2, 0 and 1, a child without parent); helpers that no call site of the toolkit can reach execute on nobody's behalf in the who-may-call rules.",
        "note": TB + "Not decided: the iff between `running` and the whole command history as such (follows from the single-writer rule and the decision tables by induction, argued not checked); trxcon's socket plan is cross-checked where cfront is available.",
    },
    "C18": {
        "technique": "complete boolean decision tables (atoms updated along the path) of the drop / FAKE_DROP / suppression code, who-may-write scan, constant folding against the validation ranges",
        "text": "Decides for all command/traffic interleavings the per-burst decision: the drop counter is written only by __init__, "
                "the two FAKE_DROP forms and a decrement by exactly 1 that coincides with `drop` (amount != 0 and fn % period == 0); "
                "FAKE_DROP stores state only when amount >= 0 (and period > 0), else returns -1 with no store; the 64-row decision "
                "table of FakeTRX.handle_data_msg equals the specified one (mute => NOPE without consuming the counter; NOPE => nothing on "
                "v0, exactly one burst-less indication with the noise constants on v1; otherwise exactly one forward); a muted sender "
                "strips the burst before any copy and trans() turns that into NOPE; the noise constants lie inside the validated ranges. FAKE_DROP is decided by folding the whole command handler (helpers and verify_cmd from source) for 35 boundary witnesses of both forms; nothing but the power-off handler discards queued bursts (R5).",
        "note": TB + "Not decided: 'exactly the next n matching bursts' as a count over a stream (follows by induction from the one-decrement-per-suppressed-burst rule).",
    },
    "C05": {
        "technique": "decision tables of the receive path, structural normal form of the reply, return-value analysis of the dispatchers, verb/arity table extraction vs spec and vs trxcon's emitted commands (clang AST), exhaustive folding over the 4-bit version domain, buffer-size agreement, who-may-write of the negotiated header version, folding of the simulation-command effects; guard folding over channel-number boundaries (clang AST)",
        "text": "Decides for every datagram: exactly one send_response iff the CMD signature verified (none for undecodable or unsigned datagrams), to the "
                "address of the same recvfrom, with 'RSP ' + verb, status inserted at index 1, arguments, optional results + NUL, always sent; both "
                "dispatchers return a status on every path, unknown verbs 0; the accepted (verb, argc) table equals spec/trxc.json and accepts every "
                "command trxcon emits; handlers read only arguments their arity guarantees; SETFORMAT/MEASURE/tuning decision tables; "
                "set_hdr_ver/pick_hdr_ver folded for all 16 versions; the control receive size covers trxcon's TRXC_BUF_SIZE. The whole receive path (handle_rx .. sendto) is folded for ten scenario datagrams / handler results: number of replies, exact reply text, destination (shape rules on send_response are only a fallback when the code does not fold); a frame number that may be None reaches the hopping resolver only for non-hopping transceivers (R7, two decision tables). R9: the negotiated header version has three writers only (constructor, set_hdr_ver, the SETFORMAT branch): who-may-write scan over the toolkit plus a fold of the command handler for every other verb with the interface on version 1. R10: accepted simulation commands store what was asked (absolute forms set, relative forms add the signed delta, SETTA unclamped), folded from a non-default state. R11: trxcon's MEASURE result handler hands on every valid channel number (0 included) and refuses only the converter's failure value. R1 also folds three identical POWERON datagrams in a row on one interface (second refused by the handler, third from another peer) and unterminated command datagrams.",
        "note": TB + "Not decided: status/side effects as a function of the whole command history beyond the per-branch guard rules (POWERON/POWEROFF tables are under C12).",
    },
    "C14": {
        "technique": "interprocedural exception-escape + taint analysis (raw/derived kinds, handler stack, class-hierarchy call resolution), length-guard interval analysis of the parser per header version, attribute-sanitisation rule (store-site guards vs partial operations on other paths), NULL-contradiction and buffer-bound rules on the clang AST of trx_if.c, use-after-release typestate on the C statement CFG",
        "text": "Decides for all octet strings: every index/unpack of TxMsg/RxMsg.parse_msg lies inside the length proven by its guards for each of "
                "the 16 version codes and the parser raises only ValueError; no exception class raised by a partial operation on received "
                "data (decode, int(), subscripts, unpack, %, randint, sleep) or by a reachable raise can leave recv_data_msg, handle_rx or the "
                "capture reader; integers stored from commands into attributes used by partial operations on other paths (clock thread) are "
                "range-checked where stored or guarded where used; in trxcon a strchr() result is never offset/dereferenced without a NULL "
                "test and receive-buffer stores/offsets stay in bounds. Results of strchr-like calls used on the spot are flagged; raises guarded by a type test that the call chain's static argument type falsifies, or by a condition interval arithmetic over validated attribute ranges decides false, are unreachable; the header-description helpers used in the rejection log lines are total on messages with None fields (R9). R10: every llist_entry(<head>.next) in trxcon's trx_if.c is dominated by !llist_empty(&<head>); str.encode(<narrow codec>) of text carrying received characters counts as a partial operation in the escape analysis. R12: the token list prepare_req() hands to the command handlers has a verb slot for every datagram that passes the signature test (fold on hostile witnesses such as the bare signature; split on an explicit separator proves it for all inputs) unless the verb matcher is total on an empty list or the receive path tests the list first. R13 (typestate on the statement CFG of every function of trx_if.c): a pointer released by talloc_free(), and the instance plus its queued commands released by osmo_fsm_inst_term() (when the FSM clean-up frees them), is not dereferenced nor has a member address handed to a call on any path from the release to the exit.",
        "note": TB + "Not decided: correctness of later behaviour beyond 'no exception/UB path and guarded state stores'; OS errors; resource exhaustion. Known finding D13 (FAKE_TRXC_DELAY overflow) is listed in known_findings.json.",
    },
    "C09": {
        "technique": "expression normal form of the counter update, guard literals, def-use classification of the worker loop's deadline variable, constant folding of the tick with Python float semantics",
        "text": "Decides the structure that makes the clock drift-free and consecutive: clck_src := (clck_src + 1) mod 2715648 unconditionally, once "
                "per tick, after the handler saw the pre-increment value; 'IND CLOCK %u\\0' to every link iff clck_src % ind_period == 0; "
                "in _worker the deadline variable starts at now(), advances by a loop-invariant tick (folds to 4.615 ms +- 1 us) each "
                "iteration, is re-based on the clock only under the overrun test, the wait timeout is deadline - now in seconds, one tick "
                "per iteration iff the wait expired, exit only via the breaker; start() resets the counter before the thread runs; stop() "
                "joins and resets so start() can run again. R7: operating-system calls of the clock thread's set-up are inside a handler that catches OSError as a whole. R1/R2 are decided by folding one tick on 168 witnesses (frame counter, period, link list, handler) and by folding the life of one generator (constructor, start, ticks, stop, start, ticks) for three (start frame, period) pairs; the statement-shape rules are recorded as structural proofs.",
        "note": TB + "Not decided: actual tick times under any handler-duration pattern (needs a clock), thread scheduling.",
    },
    "C15": {
        "technique": "forward substitution (writer/reader sibling agreement of the record framing), guard literals for short-read detection, decision tables and statement-order rules of skip/count/append; typestate dataflow of the file position; folds of append_msg / append_all with the file object as recording oracle, history folds on a random-access file model",
        "text": "Decides for every stored sequence and truncation offset the framing premises: writer emits tag(by class) + '>H' length of "
                "gen_msg() + that message, reader maps the same tags to the same classes and reads the length with the same format at "
                "hdr[1:3], HDR_LENGTH = 3, tags distinct, largest message fits 16 bits; a record is returned only if header and body "
                "were read completely (short reads and EOF give None, unparsable bodies False, never an exception); skip advances idx "
                "times by header + stored length with a relative seek from a rewound file; parse_all's loop ends on EOF, skips "
                "unparsable records, stops at count; append writes exactly dump_msg in list order. R1 is decided by folding writer and reader on 12 witness pairs (both classes, payloads of 0..751 octets): record = header + payload as produced by the plain gen_msg(), header read back as (same class, same length), foreign classes refused, unknown tags False. R6: typestate of the capture file's position ({unknown, at end}) over the CFG of every DATADumpFile method: every write happens at the end of the file on every path (seek(0, 2) since the last read / seek), and nobody outside the class writes to the file; what _parse_msg returns is the message object the record's body was parsed into; the open mode keeps stored messages. R7: the public methods are folded in sequence on ONE object state over the checker's file model (three records; a variant cut inside the last body): full read twice, random access then full read, skip / count windows, skip and index past the end, append after a read - every call returns exactly the records the file holds, selected by its arguments.",
        "note": TB + "Not decided: field equality of what is returned (C01's round trip); behaviour on files containing unparsable records beyond skip/continue.",
    },
    "C01": {
        "technique": "byte-layout abstract interpretation of encoder and decoder (sibling agreement), bit provenance via expression normal form, validated-range vs wire-width containment, exhaustive constant folding of the soft-bit tables, the MTS octet and the burst-length rules, end-to-end folding of encoder and decoder on corner witnesses",
        "text": "Decides codec symmetry, a necessary condition of the round trip, for all field values: per class and header version the encoder's "
                "segment list and the decoder's field expressions are inverse (same offsets, struct formats, negation of RSSI, version in bits 7..4 and "
                "TN in bits 2..0 of octet 0 without overlap, burst at HDR_LEN on both sides); every validated value fits its wire width; the four "
                "256-entry soft-bit tables are mutually inverse on -127..127 and map bits to full-confidence soft bits of the matching sign; "
                "parse_mts(gen_mts(x)) == x for all 112 valid (modulation, TSC set, TSC) combinations and NOPE, all 256 octets parse; "
                "burst-length and legacy-padding rules give back the sent length for every encodable length. The datagram returned by gen_msg() is storage created during the call (R6: not a class/instance/module-level buffer). R7: memoising decorators are sound only over attributes never stored after construction (a per-object cached HDR_LEN is stale once parse_msg re-reads the version); the soft-bit coding on the wire and its inverse are folded over all 256 octet values. R8: gen_msg() and parse_msg() of both classes are folded end to end on 40 corner witnesses (both versions, FN 0 / max, every modulation, all-zero / all-one bursts, soft-bit extremes, NOPE, legacy padding): decoded fields = encoded fields, the message is unchanged by encoding, encoding twice gives the same octets, an in-place change of a burst element reaches the next encoding. R7 also reports one-shot iterators (generator expressions, map / filter / zip objects) bound at module or class level and read by functions. R8 also folds one witness per box of (accepted set of validate() minus the protocol ranges) - the property quantifies over what the toolkit accepts -, decodes every pair of representative witnesses into ONE decoder object, and decodes every valid witness after a datagram the parser refused; R7 covers memoised module-level functions.",
        "note": TB + "Not decided: equality of every field for every concrete message (the runtime round trip itself); fields not on the wire (mod_type on v0).",
    },
    "C04": {
        "technique": "layout descriptors (byte-layout abstract interpretation) vs reference layout table; clang-AST extraction of trxcon's field<-octet expressions, guards, switch labels; exhaustive folding of the soft-bit conversion over all 256 octets; buffer-size agreement",
        "text": "Decides that both codecs implement the reference layout (spec/trxd.json) for all field values: per class/version every header field is "
                "written at and read from the documented offset with the documented width, byte order, sign convention and bit positions, nothing "
                "else is written, MTS = code|set in bits 6..3 + TSC, NOPE bit 7, soft bits as 127 - s; trxcon's receive path reads tn/fn/rssi/toa256/"
                "burst from the same octets, only after read_len >= 8 and version 0, accepts exactly {148, 444} (+2 legacy octets stripped), "
                "converts soft bits identically to the toolkit's table for all 256 octets, delivers only FN < 2715648; the transmit path "
                "stores tn/fn/pwr/bits at the documented offsets with length 6 + burst; each side's receive buffer holds the other's largest datagram. trxcon's length classifier is folded with the receive capacity actually passed to read(): every legal datagram length must arrive untruncated and be accepted.",
        "note": TB + "Not decided: numeric equality of decoded values for every message. osmo_load32be/osmo_store32be/memcpy are modelled.",
    },
    "C10": {
        "technique": "forward substitution + linear normal forms of the stored metadata, decision tables of the randomised properties, constant folding of the training-sequence table and slice offsets, length-tracking interpretation of the burst generators, who-may-write of the negotiated header version",
        "text": "Decides the formulas and positions for all settings: trans() copies fn/tn, converts bits through ubit2sbit and takes the recipient's "
                "version; bursts go to L1 with legacy padding; RSSI = sender power base - sender attenuation - burst attenuation - path loss (or the "
                "FAKE_RSSI window), ToA256 = window value - 256 x sender TA, C/I from its window, each window = base or "
                "randint(base - thr, base + thr); on v1 modulation = pick_by_bl(len(sent burst)), TSC/TSC set from TrainingSeqGMSK.pick "
                "for GMSK else 0; pick() compares the slices [61:87], [8:49], [42:106] with sequences of the matching burst type; the "
                "generators place the training sequence at exactly those offsets in 148-bit bursts; the sequence table equals the reference copy. pick() is additionally folded for 30 witness bursts against the reference (first member in definition order whose sequence equals the slice at the position of its burst type); the path-loss term is a constant or a constructor-only attribute of the recipient. R5: a rejected FAKE_TOA / FAKE_RSSI / FAKE_CI command (status != 0 or ValueError) changes no simulated radio setting (handler folded over argument witnesses of both forms); TxMsg.trans folded over {requested version None/0/1} x {own version} x {burst or not}. R7: the header version a recipient negotiated is changed by nothing but SETFORMAT (who-may-write scan over all toolkit modules + per-verb fold of the command handler) - a power event or data path that resets / copies it is reported. R8: see C05.R10 (FAKE_TOA / FAKE_RSSI / FAKE_CI / SETTA effects from a non-default state). R3's generator clause is decided by folding gen_nb / gen_sb / gen_ab with every training sequence of the burst type (148 bits, the sequence where pick() looks for it, default drawn from the own burst type).",
        "note": TB + "Not decided: numeric values for concrete configurations; randomised values beyond their window bounds; the training-sequence reference is the tree's own content for entries not cross-read against TS 45.002 (detects change).",
    },
}
