# Length-guard analysis for parsers of received octets (C14.R1, C15.R2):
# tracks, along every path, a proven lower bound of len(buffer) established by
# `if len(buf) < K: raise/return` guards (K folded per scenario) and requires
# every constant subscript and every struct.unpack of a slice to lie inside it.

import ast
import struct

from report import AnalysisError
from consteval import Ev, Unknown, Raised
from pyfront import canon


class Access:
    def __init__(self, node, what, need, have, ok, func):
        self.node, self.what, self.need, self.have, self.ok, self.func = node, what, need, have, ok, func


class LenCheck:
    def __init__(self, repo, ci, env, initial=None):
        """env: attribute values decoded from the buffer in this scenario
        (e.g. {'self.ver': 1}); initial: their values *before* the parser
        assigns them (constructor defaults).  An attribute switches from its
        initial to its scenario value at the statement that assigns it."""
        self.repo = repo
        self.ci = ci
        self.scen = dict(env)
        self.env = dict(env)
        if initial:
            self.env.update(initial)
        self.acc = []
        self.raises = []              # (node, class, func)
        self.steps = 0

    def ev(self, mod, e, extra=None):
        env = dict(self.env)
        if extra:
            env.update(extra)
        return Ev(self.repo, mod, env=env, self_cls=self.ci).ev(e)

    def run(self, meth, bufparam_index=1, lb=0):
        c, m = self.repo.find_method(self.ci, meth)
        if m is None:
            raise AnalysisError("no method %s" % meth)
        buf = m.args.args[bufparam_index].arg
        self.call(c, m, {buf: lb}, 0)
        return self.acc

    def call(self, c, m, bufs, depth):
        if depth > 6:
            raise AnalysisError("lencheck: call depth")
        qn = "%s.%s" % (c.name, m.name)
        self.block(m.body, c, qn, dict(bufs), depth)

    def block(self, stmts, c, qn, bufs, depth):
        """returns list of buffer-states falling through"""
        states = [bufs]
        for st in stmts:
            nxt = []
            for b in states:
                nxt += self.stmt(st, c, qn, b, depth)
            states = nxt
            if not states:
                break
        return states

    def buf_len_cmp(self, test, bufs):
        """recognise len(buf) <op> K ; returns (bufname, op, Kexpr) or None"""
        if isinstance(test, ast.Compare) and len(test.ops) == 1:
            a, b = test.left, test.comparators[0]
            if isinstance(a, ast.Call) and canon(a.func) == "len" and len(a.args) == 1 and \
                    isinstance(a.args[0], ast.Name) and a.args[0].id in bufs:
                return a.args[0].id, type(test.ops[0]), b
        return None

    def stmt(self, st, c, qn, bufs, depth):
        self.steps += 1
        if self.steps > 20000:
            raise AnalysisError("lencheck: too many steps")
        mod = c.mod
        if isinstance(st, ast.If):
            self.scan(st.test, c, qn, bufs, depth)
            bl = self.buf_len_cmp(st.test, bufs)
            if bl is not None:
                name, op, kexpr = bl
                try:
                    K = self.ev(mod, kexpr)
                except Raised as e:
                    # evaluating the bound itself raises (e.g. HDR_LEN for an unhandled version)
                    self.raises.append((st, e.cls, qn))
                    return []
                except Unknown as e:
                    raise AnalysisError("lencheck: bound `%s` does not fold: %s" % (canon(kexpr), e))
                tb, fb = dict(bufs), dict(bufs)
                if op is ast.Lt:
                    fb[name] = max(fb[name], K)
                elif op is ast.LtE:
                    fb[name] = max(fb[name], K + 1)
                elif op is ast.GtE:
                    tb[name] = max(tb[name], K)
                elif op is ast.Gt:
                    tb[name] = max(tb[name], K + 1)
                elif op is ast.Eq:
                    tb[name] = max(tb[name], K)
                elif op is ast.NotEq:
                    fb[name] = max(fb[name], K)
                return self.block(st.body, c, qn, tb, depth) + self.block(st.orelse, c, qn, fb, depth)
            try:
                v = self.ev(mod, st.test)
                return self.block(st.body if v else st.orelse, c, qn, bufs, depth)
            except (Unknown, Raised):
                return self.block(st.body, c, qn, dict(bufs), depth) + self.block(st.orelse, c, qn, dict(bufs), depth)
        if isinstance(st, ast.Raise):
            cls = "Exception"
            if st.exc is not None:
                e = st.exc.func if isinstance(st.exc, ast.Call) else st.exc
                cls = canon(e)
            self.raises.append((st, cls, qn))
            return []
        if isinstance(st, ast.Return):
            if st.value is not None:
                self.scan(st.value, c, qn, bufs, depth)
            return []
        if isinstance(st, ast.Assign):
            self.scan(st.value, c, qn, bufs, depth)
            for t in st.targets:
                k = canon(t)
                if k in self.scen:
                    self.env[k] = self.scen[k]
            # buffer aliases: x = memoryview(buf)[K:] / x = buf / x = bytearray(buf)
            if len(st.targets) == 1 and isinstance(st.targets[0], ast.Name):
                tgt = st.targets[0].id
                v = st.value
                nb = dict(bufs)
                src, off = self.alias(v, bufs, mod)
                if src is not None:
                    nb[tgt] = max(0, bufs[src] - off)
                    return [nb]
                if tgt in nb:
                    del nb[tgt]
                # a local holding a folded integer (e.g. `hdr_len = self.HDR_LEN`) can serve as a bound later
                try:
                    val = self.ev(mod, v)
                    if isinstance(val, int) and not isinstance(val, bool):
                        self.env[tgt] = val
                    elif tgt in self.env and tgt not in self.scen:
                        del self.env[tgt]
                except (Unknown, Raised):
                    if tgt in self.env and tgt not in self.scen:
                        del self.env[tgt]
                return [nb]
            return [bufs]
        if isinstance(st, ast.Expr):
            self.scan(st.value, c, qn, bufs, depth)
            return [bufs]
        if isinstance(st, (ast.For, ast.While, ast.With, ast.Try)):
            for sub in ast.walk(st):
                if isinstance(sub, ast.expr):
                    pass
            # conservative: scan expressions, walk bodies with the same bounds
            out = []
            for fld in ("body", "orelse", "finalbody"):
                out += self.block(getattr(st, fld, []) or [], c, qn, dict(bufs), depth)
            for h in getattr(st, "handlers", []):
                out += self.block(h.body, c, qn, dict(bufs), depth)
            return out or [bufs]
        return [bufs]

    def alias(self, v, bufs, mod):
        if isinstance(v, ast.Name) and v.id in bufs:
            return v.id, 0
        if isinstance(v, ast.Call) and canon(v.func) in ("memoryview", "bytearray", "bytes") and len(v.args) == 1:
            return self.alias(v.args[0], bufs, mod)
        if isinstance(v, ast.Subscript) and isinstance(v.slice, ast.Slice) and v.slice.upper is None \
                and v.slice.step is None:
            src, off = self.alias(v.value, bufs, mod)
            if src is not None:
                try:
                    k = self.ev(mod, v.slice.lower) if v.slice.lower is not None else 0
                except (Unknown, Raised):
                    return None, 0
                return src, off + k
        return None, 0

    def scan(self, e, c, qn, bufs, depth):
        mod = c.mod
        handled = set()
        for n in ast.walk(e):
            if id(n) in handled:
                continue
            if isinstance(n, ast.Call) and canon(n.func) == "struct.unpack" and len(n.args) == 2:
                fmt = n.args[0].value if isinstance(n.args[0], ast.Constant) else None
                sl = n.args[1]
                if fmt is None or not (isinstance(sl, ast.Subscript) and isinstance(sl.slice, ast.Slice)
                                       and isinstance(sl.value, ast.Name) and sl.value.id in bufs):
                    if any(isinstance(x, ast.Name) and x.id in bufs for x in ast.walk(n)):
                        self.acc.append(Access(n, "struct.unpack on received octets (unclassifiable operand)", "?", "?", False, qn))
                    continue
                try:
                    lo = self.ev(mod, sl.slice.lower) if sl.slice.lower is not None else 0
                    hi = self.ev(mod, sl.slice.upper)
                except (Unknown, Raised, TypeError):
                    self.acc.append(Access(n, "struct.unpack slice bounds do not fold", "?", "?", False, qn))
                    continue
                size = struct.calcsize(fmt)
                have = bufs[sl.value.id]
                ok = (hi - lo == size) and have >= hi
                self.acc.append(Access(n, "%s needs %d octets at [%d:%d]" % (canon(n), size, lo, hi),
                                       "len >= %d and slice width %d" % (hi, size), "len >= %d, width %d" % (have, hi - lo), ok, qn))
                handled.add(id(sl))
            elif isinstance(n, ast.Subscript) and isinstance(n.value, ast.Name) and n.value.id in bufs \
                    and not isinstance(n.slice, ast.Slice) and isinstance(n.ctx, ast.Load):
                try:
                    i = self.ev(mod, n.slice)
                except (Unknown, Raised):
                    self.acc.append(Access(n, "%s index does not fold" % canon(n), "?", "?", False, qn))
                    continue
                have = bufs[n.value.id]
                need = i + 1 if i >= 0 else None
                ok = need is not None and have >= need
                self.acc.append(Access(n, "%s reads octet %d" % (canon(n), i), "len >= %s" % need, "len >= %d" % have, ok, qn))
            elif isinstance(n, ast.Call) and isinstance(n.func, ast.Attribute) and \
                    isinstance(n.func.value, ast.Name) and n.func.value.id == "self":
                # inline self.method(buf...) when a tracked buffer is passed
                c2, m2 = self.repo.find_method(self.ci, n.func.attr)
                if m2 is None:
                    continue
                ps = [a.arg for a in m2.args.args][1:]
                nb = {}
                for p, a in zip(ps, n.args):
                    src, off = self.alias(a, bufs, mod)
                    if src is not None:
                        nb[p] = max(0, bufs[src] - off)
                    elif isinstance(a, ast.Subscript) and isinstance(a.value, ast.Name) and a.value.id in bufs:
                        pass
                if nb:
                    self.call(c2, m2, nb, depth + 1)
