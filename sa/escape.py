# E8 -- exception-escape + taint analysis for the Python tools.
#
# From an entry method, follows the resolved call graph (class-hierarchy +
# name resolution inside the flat toolkit namespace) carrying
#   * a taint set: locals that hold octets received from a socket / file, or
#     values computed from them,
#   * the dynamic stack of enclosing `except` handlers.
# Every *partial operation* applied to a tainted value (bytes.decode, int(str),
# constant subscript of a split list, struct.unpack, %, randint, ...) and every
# explicit `raise` is a site; a site "escapes" if no handler on the stack
# catches its class.  Stores of tainted values into attributes are recorded
# for the attribute-sanitisation rule.

import ast

from report import AnalysisError
from pyfront import canon, CFG, guard_literals, enclosing_func

HIER = {
    "UnicodeDecodeError": ["UnicodeDecodeError", "UnicodeError", "ValueError", "Exception", "BaseException"],
    "ValueError": ["ValueError", "Exception", "BaseException"],
    "UnicodeEncodeError": ["UnicodeEncodeError", "UnicodeError", "ValueError", "Exception", "BaseException"],
    "IndexError": ["IndexError", "LookupError", "Exception", "BaseException"],
    "KeyError": ["KeyError", "LookupError", "Exception", "BaseException"],
    "TypeError": ["TypeError", "Exception", "BaseException"],
    "ZeroDivisionError": ["ZeroDivisionError", "ArithmeticError", "Exception", "BaseException"],
    "OverflowError": ["OverflowError", "ArithmeticError", "Exception", "BaseException"],
    "struct.error": ["struct.error", "Exception", "BaseException"],
    "AttributeError": ["AttributeError", "Exception", "BaseException"],
    "NotImplementedError": ["NotImplementedError", "RuntimeError", "Exception", "BaseException"],
    "AssertionError": ["AssertionError", "Exception", "BaseException"],
    "DecodeError": ["DecodeError", "Exception", "BaseException"],
    "EncodeError": ["EncodeError", "Exception", "BaseException"],
    "ProtocolError": ["ProtocolError", "Exception", "BaseException"],
}

SAFE_FUNCS = {
    "len", "str", "repr", "list", "tuple", "zip", "range", "enumerate", "bytearray", "bytes", "memoryview",
    "isinstance", "type", "bool", "min", "max", "abs", "sorted", "reversed", "print", "id", "hash", "iter",
    "array", "set", "dict", "any", "all", "sum", "hex", "format",
}
SAFE_METHODS = {
    "startswith", "endswith", "strip", "lstrip", "rstrip", "split", "join", "insert", "append", "extend",
    "encode", "format", "upper", "lower", "hex", "tobytes", "translate", "clear", "remove", "get", "items",
    "keys", "values", "copy", "isdigit", "find", "replace", "seek", "tell", "read", "write", "close",
    "getsockname", "bind", "setsockopt", "setblocking", "recvfrom", "recv", "recvfrom_into", "recv_into", "sendto", "info", "debug", "error",
    "warning", "warn", "critical", "acquire", "release", "is_alive", "wait", "set", "start", "join",
    "monotonic_ns", "rstrip", "pop", "count", "index", "sleep", "randint", "choice", "pack", "unpack",
    "from_bytes", "to_bytes", "groups", "match", "measure_dummy",
    # total predicates / conversions of str and bytes
    "isspace", "isalpha", "isalnum", "isupper", "islower", "isascii", "isprintable", "isnumeric", "isdecimal", "isidentifier",
    "istitle", "title", "capitalize", "casefold", "swapcase", "partition", "rpartition", "rfind", "splitlines", "expandtabs",
    "removeprefix", "removesuffix", "ljust", "rjust", "center", "zfill",
}


class Site:
    def __init__(self, kind, exc, node, mod, func, desc, caught, chain, guard=None):
        self.kind = kind        # 'decode' 'int' 'subscript' 'unpack' 'mod' 'randint' 'raise' 'sleep' ...
        self.exc = exc
        self.node = node
        self.mod = mod
        self.func = func
        self.desc = desc
        self.caught = caught    # handler text that catches it, or None
        self.chain = chain      # call chain from the entry
        self.guard = guard


class AttrStore:
    def __init__(self, attr, node, mod, func, value, cfg):
        self.attr, self.node, self.mod, self.func, self.value, self.cfg = attr, node, mod, func, value, cfg


def handler_classes(h):
    t = h.type
    if t is None:
        return None          # catches everything
    if isinstance(t, ast.Tuple):
        return [canon(e) for e in t.elts]
    return [canon(t)]


def catches(stack, exc):
    """innermost handler set on the stack catching class exc, or None"""
    chain = HIER.get(exc, [exc, "Exception", "BaseException"])
    for hs in reversed(stack):
        for classes, text in hs:
            if classes is None or any(c in chain for c in classes):
                return text
    return None


class Escape:
    def __init__(self, repo, sources=("recvfrom", "read")):
        self.repo = repo
        self.sources = set(sources)
        self.sites = []
        self.stores = []
        self.unresolved = []
        self._seen = set()
        self._ret = {}
        self._cfgs = {}
        self._invs = {}
        self.visited_funcs = set()

    def cfg(self, fd):
        if id(fd) not in self._cfgs:
            self._cfgs[id(fd)] = CFG(fd)
        return self._cfgs[id(fd)]

    # -- callee resolution ----------------------------------------------------
    def methods_named(self, name, family=None):
        out = []
        for m in self.repo.tk_modules():
            for ci in self._all_classes(m):
                if name in ci.methods:
                    if family is not None:
                        fam = {c.name for c in self.repo.mro(ci)}
                        if not (family & fam) and ci.name not in family:
                            continue
                    out.append((ci, ci.methods[name]))
        return out

    def _all_classes(self, m):
        out = []
        work = list(m.classes.values())
        while work:
            c = work.pop()
            out.append(c)
            work.extend(c.inner.values())
        return out

    def family_of(self, ci):
        """names of ci, its bases and all subclasses (concrete object may be any)"""
        fam = {c.name for c in self.repo.mro(ci)}
        for m in self.repo.tk_modules():
            for c in self._all_classes(m):
                if ci.name in {b.name for b in self.repo.mro(c)}:
                    fam.add(c.name)
        return fam

    def attr_types(self):
        """attribute name -> set of toolkit class names assigned to it by a
        constructor call anywhere in the toolkit (`x.attr = Cls(...)`)"""
        if getattr(self, "_attr_types", None) is None:
            at = {}
            for m in self.repo.tk_modules():
                for n in ast.walk(m.tree):
                    if isinstance(n, ast.Assign) and isinstance(n.value, ast.Call) and isinstance(n.value.func, ast.Name):
                        r = self.repo.lookup(m, n.value.func.id)
                        if r is not None and r[0] == "class":
                            for t in n.targets:
                                if isinstance(t, ast.Attribute):
                                    at.setdefault(t.attr, set()).add(r[1].name)
            self._attr_types = at
        return self._attr_types

    def recv_family(self, recv, mod, fd):
        """class family of a receiver expression, if it can be inferred"""
        names = None
        if isinstance(recv, ast.Name) and fd is not None:
            for n in ast.walk(fd):
                if isinstance(n, ast.Assign) and isinstance(n.value, ast.Call) and isinstance(n.value.func, ast.Name) \
                        and any(isinstance(t, ast.Name) and t.id == recv.id for t in n.targets):
                    r = self.repo.lookup(mod, n.value.func.id)
                    if r is not None and r[0] == "class":
                        names = (names or set()) | {r[1].name}
        elif isinstance(recv, ast.Attribute):
            names = self.attr_types().get(recv.attr)
        if not names:
            return None
        fam = set()
        for m in self.repo.tk_modules():
            for c in self._all_classes(m):
                if c.name in names:
                    fam |= self.family_of(c)
        return fam or None

    def resolve(self, call, ci, mod, fd=None):
        """list of (ClassInfo|None, FunctionDef, self_is_first_arg) or 'safe' or None"""
        f = call.func
        if isinstance(f, ast.Name):
            if f.id in SAFE_FUNCS or f.id in ("int", "float") or \
                    f.id.endswith(("Error", "Exception", "Warning", "Interrupt")):
                return "safe"
            r = self.repo.lookup(mod, f.id)
            if r is not None and r[0] == "class":
                c, init = self.repo.find_method(r[1], "__init__")
                return [(r[1], init, False)] if init is not None else "safe"
            if r is not None and r[0] == "func":
                r[1]._defmod = r[2]
                return [(None, r[1], None)]
            if r is None and fd is not None:
                # a local holding a bound method (`tick = trx.clck_tick`, `for tick in (t.clck_tick for t in L)`): every
                # method reference taken as a VALUE in this function may be what the local holds (over-approximation)
                called = {id(c.func) for c in ast.walk(fd) if isinstance(c, ast.Call)}
                out = []
                for x in ast.walk(fd):
                    if isinstance(x, ast.Attribute) and isinstance(x.ctx, ast.Load) and id(x) not in called:
                        for c_, m_ in self.methods_named(x.attr):
                            if (c_, m_, False) not in out:
                                out.append((c_, m_, False))
                if out:
                    return out
            return None
        if isinstance(f, ast.Attribute):
            name = f.attr
            recv = f.value
            # explicit base call Base.meth(self, ...)
            if isinstance(recv, ast.Name):
                r = self.repo.lookup(mod, recv.id)
                if r is not None and r[0] == "class":
                    c, m = self.repo.find_method(r[1], name)
                    if m is not None:
                        return [(c, m, True)]
            if isinstance(recv, ast.Name) and recv.id == "self" and ci is not None:
                fam = self.family_of(ci)
                ms = self.methods_named(name, fam)
                if ms:
                    return [(c, m, False) for c, m in ms]
            fam = self.recv_family(recv, mod, fd)
            ms = self.methods_named(name, fam) if fam else self.methods_named(name)
            if ms and name not in SAFE_METHODS:
                return [(c, m, False) for c, m in ms]
            if name in SAFE_METHODS or canon(recv).startswith(("log", "struct", "random", "time", "os", "signal",
                                                               "select", "threading", "socket", "sys")):
                return "safe"
            if ms:
                return [(c, m, False) for c, m in ms]
            return None
        return None

    # -- analysis -----------------------------------------------------------
    def run(self, ci, meth, tainted=()):
        c, fd = self.repo.find_method(ci, meth)
        if fd is None:
            raise AnalysisError("entry %s.%s vanished" % (ci.name, meth))
        self.entry = "%s.%s" % (ci.name, meth)
        self.visit(ci, c.mod, fd, {t: "raw" for t in tainted}, [], [self.entry], set())
        return self.sites

    def visit(self, ci, mod, fd, taint, stack, chain, tattrs):
        """taint: dict name -> 'raw' (received octets / text / list of text)
        | 'num' (value computed from them).  Returns the kind of the
        function's return value (None if untainted)."""
        key = (id(fd), tuple(sorted(taint.items())), "|".join(t for hs in stack for _, t in hs))
        if key in self._ret:
            return self._ret[key]
        if len(chain) > 12:
            return "num"
        self._ret[key] = "num" if taint else None      # provisional (recursion)
        qn = "%s.%s" % (ci.name, fd.name) if ci is not None else fd.name
        self.visited_funcs.add("%s:%s" % (mod.rel, qn))
        taint = dict(taint)
        ret = [None]
        # buffers filled in place by the socket (`sock.recvfrom_into(buf)`), and the views over them
        for n in ast.walk(fd):
            if isinstance(n, ast.Call) and isinstance(n.func, ast.Attribute) and n.func.attr in ("recvfrom_into", "recv_into") and n.args \
                    and any(s_ in ("recvfrom", "recv") for s_ in self.sources):
                btxt = canon(n.args[0])
                taint[btxt] = "raw"
                if ci is not None:
                    for c2_ in self.repo.mro(ci):
                        for m2_ in c2_.methods.values():
                            for x_ in ast.walk(m2_):
                                if isinstance(x_, ast.Assign) and len(x_.targets) == 1 and isinstance(x_.value, ast.Call) \
                                        and canon(x_.value.func) in ("memoryview", "bytearray", "bytes") and x_.value.args \
                                        and canon(x_.value.args[0]) == btxt:
                                    taint[canon(x_.targets[0])] = "raw"
        # flow-insensitive taint closure over local assignments
        for _ in range(6):
            before = dict(taint)
            for n in ast.walk(fd):
                if isinstance(n, ast.Assign):
                    k = self.expr_kind(n.value, taint, ci, mod)
                    if k:
                        for t in n.targets:
                            self.taint_target(self._payload_target(t, n.value), taint, k)
                elif isinstance(n, ast.AugAssign):
                    k = self.expr_kind(n.value, taint, ci, mod)
                    if k:
                        self.taint_target(n.target, taint, "num")
                elif isinstance(n, (ast.For, ast.comprehension)):
                    k = self.expr_kind(n.iter, taint, ci, mod)
                    if k:
                        self.taint_target(n.target, taint, k)
            if taint == before:
                break
        self.block(fd.body, ci, mod, fd, taint, stack, chain, ret)
        self._ret[key] = ret[0]
        return ret[0]

    @staticmethod
    def _payload_target(t, value):
        """`data, peer = sock.recvfrom(n)`: only the first element is what the sender wrote; the second is the address
        pair the operating system reports for an AF_INET datagram socket (host, port) - its shape does not depend on the
        datagram."""
        if isinstance(t, (ast.Tuple, ast.List)) and len(t.elts) == 2 and isinstance(value, ast.Call) \
                and isinstance(value.func, ast.Attribute) and value.func.attr == "recvfrom":
            return t.elts[0]
        return t

    def taint_target(self, t, taint, k):
        def put(name):
            if taint.get(name) != "raw":
                taint[name] = k
        if isinstance(t, ast.Name):
            put(t.id)
        elif isinstance(t, (ast.Tuple, ast.List)):
            for e in t.elts:
                self.taint_target(e, taint, k)
        elif isinstance(t, ast.Attribute):
            put(canon(t))
        elif isinstance(t, ast.Starred):
            self.taint_target(t.value, taint, k)

    RAW_METHODS = {"decode", "strip", "lstrip", "rstrip", "split", "encode", "translate", "tobytes",
                   "lower", "upper", "replace"}
    RAW_CTORS = {"bytearray", "bytes", "memoryview", "array", "list", "tuple", "str"}

    def expr_tainted(self, e, taint, ci=None, mod=None):
        return self.expr_kind(e, taint, ci, mod) is not None

    def expr_kind(self, e, taint, ci=None, mod=None):
        """'raw' | 'num' | None"""
        if isinstance(e, ast.Name):
            return taint.get(e.id)
        if isinstance(e, ast.Attribute):
            k = taint.get(canon(e))
            if k:
                return k
            return "num" if self.expr_kind(e.value, taint, ci, mod) else None
        if isinstance(e, ast.Subscript):
            k = self.expr_kind(e.value, taint, ci, mod)
            if k:
                return k
            return "num" if self.expr_kind(e.slice, taint, ci, mod) else None
        if isinstance(e, ast.Call):
            f = e.func
            if isinstance(f, ast.Attribute) and f.attr in self.sources:
                return "raw"
            if isinstance(f, ast.Attribute) and f.attr in self.RAW_METHODS:
                if self.expr_kind(f.value, taint, ci, mod) == "raw":
                    return "raw"
            if isinstance(f, ast.Name) and f.id in self.RAW_CTORS:
                ks = [self.expr_kind(a, taint, ci, mod) for a in e.args]
                if "raw" in ks:
                    return "raw"
            if ci is not None or mod is not None:
                r = self.resolve(e, ci, mod) if mod is not None else None
                if isinstance(r, list):
                    for c2, m2, self_first in r:
                        t2 = self.bind(e, c2, m2, self_first, taint, ci, mod)
                        cm = c2.mod if c2 is not None else getattr(m2, "_defmod", mod)
                        k = self.summary(c2, cm, m2, t2)
                        if k:
                            return k
                    # fallthrough: arguments tainted -> result 'num'
            for sub in ast.iter_child_nodes(e):
                if isinstance(sub, ast.expr) and self.expr_kind(sub, taint, ci, mod):
                    return "num"
                if isinstance(sub, ast.keyword) and self.expr_kind(sub.value, taint, ci, mod):
                    return "num"
            return None
        if isinstance(e, (ast.ListComp, ast.GeneratorExp, ast.SetComp)):
            t2 = dict(taint)
            for g in e.generators:
                k = self.expr_kind(g.iter, t2, ci, mod)
                if k:
                    self.taint_target(g.target, t2, k)
            return "num" if self.expr_kind(e.elt, t2, ci, mod) else None
        for sub in ast.iter_child_nodes(e):
            if isinstance(sub, ast.expr) and self.expr_kind(sub, taint, ci, mod):
                return "num"
        return None

    def summary(self, ci, mod, fd, taint, depth=0):
        """kind of the value a callee returns (no site recording)"""
        key = ("sum", id(fd), tuple(sorted(taint.items())))
        if key in self._ret:
            return self._ret[key]
        self._ret[key] = None
        t = dict(taint)
        for _ in range(4):
            before = dict(t)
            for n in ast.walk(fd):
                if isinstance(n, ast.Assign):
                    k = self.expr_kind(n.value, t, ci, mod)
                    if k:
                        for tg in n.targets:
                            self.taint_target(self._payload_target(tg, n.value), t, k)
                elif isinstance(n, ast.For):
                    k = self.expr_kind(n.iter, t, ci, mod)
                    if k:
                        self.taint_target(n.target, t, k)
            if t == before:
                break
        out = None
        for n in ast.walk(fd):
            if isinstance(n, ast.Return) and n.value is not None:
                k = self.expr_kind(n.value, t, ci, mod)
                if k == "raw":
                    out = "raw"
                elif k and out is None:
                    out = "num"
        self._ret[key] = out
        return out

    def bind(self, n, c2, m2, self_first, taint, ci, mod):
        params = [a.arg for a in m2.args.args]
        t2 = {}
        args = list(n.args)
        if self_first is True:
            args = args[1:]
        pnames = params[1:] if (c2 is not None and params and params[0] in ("self", "cls")) else params
        star = None
        for i, a in enumerate(args):
            if isinstance(a, ast.Starred):
                k = self.expr_kind(a.value, taint, ci, mod)
                if k:
                    star = k
                continue
            k = self.expr_kind(a, taint, ci, mod)
            if k:
                if i < len(pnames):
                    t2[pnames[i]] = k
                elif m2.args.vararg is not None:
                    t2[m2.args.vararg.arg] = k
        if star:
            for pn in pnames:
                t2.setdefault(pn, star)
            if m2.args.vararg is not None:
                t2[m2.args.vararg.arg] = star
        for kw in n.keywords:
            if kw.arg is not None:
                k = self.expr_kind(kw.value, taint, ci, mod)
                if k:
                    t2[kw.arg] = k
        return t2

    def block(self, stmts, ci, mod, fd, taint, stack, chain, ret):
        for st in stmts:
            self.stmt(st, ci, mod, fd, taint, stack, chain, ret)

    def stmt(self, st, ci, mod, fd, taint, stack, chain, ret):
        if isinstance(st, ast.Try):
            hs = [(handler_classes(h), "except %s" % (canon(h.type) if h.type is not None else "<all>"))
                  for h in st.handlers]
            self.block(st.body, ci, mod, fd, taint, stack + [hs], chain, ret)
            self.block(st.orelse, ci, mod, fd, taint, stack, chain, ret)
            for h in st.handlers:
                self.block(h.body, ci, mod, fd, taint, stack, chain, ret)
            self.block(st.finalbody, ci, mod, fd, taint, stack, chain, ret)
            return
        if isinstance(st, (ast.If, ast.While)):
            self.expr(st.test, st, ci, mod, fd, taint, stack, chain)
            self.block(st.body, ci, mod, fd, taint, stack, chain, ret)
            self.block(st.orelse, ci, mod, fd, taint, stack, chain, ret)
            return
        if isinstance(st, ast.For):
            self.expr(st.iter, st, ci, mod, fd, taint, stack, chain)
            self.block(st.body, ci, mod, fd, taint, stack, chain, ret)
            self.block(st.orelse, ci, mod, fd, taint, stack, chain, ret)
            return
        if isinstance(st, ast.With):
            for it in st.items:
                self.expr(it.context_expr, st, ci, mod, fd, taint, stack, chain)
            self.block(st.body, ci, mod, fd, taint, stack, chain, ret)
            return
        if isinstance(st, ast.Raise):
            cls = "Exception"
            if st.exc is not None:
                e = st.exc.func if isinstance(st.exc, ast.Call) else st.exc
                cls = canon(e)
                self.expr(st.exc, st, ci, mod, fd, taint, stack, chain)
            if self.raise_infeasible(st, fd, taint, ci):
                return
            self.site("raise", cls, st, mod, ci, fd, "raise %s" % cls, stack, chain)
            return
        if isinstance(st, ast.Return):
            if st.value is not None:
                self.expr(st.value, st, ci, mod, fd, taint, stack, chain)
                k = self.expr_kind(st.value, taint, ci, mod)
                if k == "raw" or (k and ret[0] is None):
                    ret[0] = k
            return
        if isinstance(st, (ast.FunctionDef, ast.ClassDef)):
            return
        if isinstance(st, ast.Assign):
            self.expr(st.value, st, ci, mod, fd, taint, stack, chain)
            # `n, peer = sock.recvfrom_into(buf)` / `n = sock.recv_into(buf)`: the received octets are in the buffer handed in -
            # and in every view of it (`self.view = memoryview(self.buf)` anywhere in the class)
            if isinstance(st.value, ast.Call) and isinstance(st.value.func, ast.Attribute) and st.value.func.attr in ("recvfrom_into", "recv_into") \
                    and st.value.args:
                btxt = canon(st.value.args[0])
                taint[btxt] = "raw"
                if ci is not None:
                    for c2_ in self.repo.mro(ci):
                        for m2_ in c2_.methods.values():
                            for x_ in ast.walk(m2_):
                                if isinstance(x_, ast.Assign) and len(x_.targets) == 1 and isinstance(x_.value, ast.Call) \
                                        and canon(x_.value.func) in ("memoryview", "bytearray", "bytes") and x_.value.args \
                                        and canon(x_.value.args[0]) == btxt:
                                    taint[canon(x_.targets[0])] = "raw"
                for t in st.targets:
                    if isinstance(t, (ast.Tuple, ast.List)) and len(t.elts) == 2 and isinstance(t.elts[1], ast.Name) \
                            and st.value.func.attr == "recvfrom_into":
                        taint["$sockaddr:" + t.elts[1].id] = True
                    for e_ in (t.elts[:1] if isinstance(t, (ast.Tuple, ast.List)) else [t]):
                        if isinstance(e_, ast.Name):
                            taint[e_.id] = "num"
            # `data, peer = sock.recvfrom(n)`: the second element is the (host, port) pair the operating system reports
            for t in st.targets:
                if isinstance(t, (ast.Tuple, ast.List)) and len(t.elts) == 2 and isinstance(t.elts[1], ast.Name) \
                        and isinstance(st.value, ast.Call) and isinstance(st.value.func, ast.Attribute) and st.value.func.attr == "recvfrom":
                    taint["$sockaddr:" + t.elts[1].id] = True
            if self.expr_tainted(st.value, taint, ci, mod):
                for t in st.targets:
                    for a in ast.walk(t):
                        if isinstance(a, ast.Attribute) and isinstance(a.ctx, ast.Store):
                            self.stores.append(AttrStore(a.attr, st, mod, self.qn(ci, fd), st.value, self.cfg(fd)))
            for t in st.targets:
                self.expr(t, st, ci, mod, fd, taint, stack, chain)
            return
        if isinstance(st, ast.AugAssign):
            self.expr(st.value, st, ci, mod, fd, taint, stack, chain)
            self.expr(ast.BinOp(left=st.target, op=st.op, right=st.value), st, ci, mod, fd, taint, stack, chain,
                      synthetic=True)
            if self.expr_tainted(st.value, taint, ci, mod) and isinstance(st.target, ast.Attribute):
                self.stores.append(AttrStore(st.target.attr, st, mod, self.qn(ci, fd), st.value, self.cfg(fd)))
            return
        for e in ast.iter_child_nodes(st):
            if isinstance(e, ast.expr):
                self.expr(e, st, ci, mod, fd, taint, stack, chain)

    STR_METHODS = {"decode", "join", "format", "strip", "lstrip", "rstrip", "lower", "upper", "replace", "hex"}
    BYTES_CALLS = {"bytes", "bytearray", "struct.pack", "bytes.fromhex", "bytearray.fromhex"}

    def static_type(self, e, fd, taint, depth=0):
        """'str' / 'bytes' when the expression has that type on every evaluation, else None"""
        if depth > 4:
            return None
        if isinstance(e, ast.Constant):
            return "str" if isinstance(e.value, str) else "bytes" if isinstance(e.value, bytes) else None
        if isinstance(e, ast.JoinedStr):
            return "str"
        if isinstance(e, ast.BinOp) and isinstance(e.op, ast.Mod):
            return self.static_type(e.left, fd, taint, depth + 1) if self.static_type(e.left, fd, taint, depth + 1) == "str" else None
        if isinstance(e, ast.BinOp) and isinstance(e.op, ast.Add):
            a, b = self.static_type(e.left, fd, taint, depth + 1), self.static_type(e.right, fd, taint, depth + 1)
            return a or b           # `+` is only defined between equal sequence types
        if isinstance(e, ast.Call):
            fn_ = canon(e.func)
            if fn_ == "str":
                return "str"
            if fn_ in self.BYTES_CALLS:
                return "bytes"
            if isinstance(e.func, ast.Attribute):
                if e.func.attr == "encode":
                    return "bytes"
                if e.func.attr in self.STR_METHODS and e.func.attr != "hex":
                    return "str"
                if e.func.attr == "gen_msg":
                    return "bytes"
            return None
        if isinstance(e, ast.Name):
            t = taint.get("$type:" + e.id)
            dnodes = [n for n in ast.walk(fd) if isinstance(n, ast.Assign) and len(n.targets) == 1 and
                      isinstance(n.targets[0], ast.Name) and n.targets[0].id == e.id]
            # definitions textually after the use do not reach it, unless both sit in one loop
            use_line = getattr(e, "lineno", None)
            if use_line is not None:
                later = [n for n in dnodes if n.lineno >= use_line and not (n.lineno == use_line and n.value is not None and
                                                                         not any(x is e for x in ast.walk(n.value)))]
                in_loop = False
                for n in later:
                    q = getattr(n, "_parent", None)
                    while q is not None and q is not fd:
                        if isinstance(q, (ast.For, ast.While)) and any(x is e for x in ast.walk(q)):
                            in_loop = True
                        q = getattr(q, "_parent", None)
                if in_loop:
                    return None
                dnodes = [n for n in dnodes if n not in later]
            defs = [n.value for n in dnodes]
            other = [n for n in ast.walk(fd) if isinstance(n, (ast.AugAssign, ast.For, ast.With, ast.NamedExpr)) and any(
                isinstance(x, ast.Name) and x.id == e.id and isinstance(x.ctx, ast.Store) for x in ast.walk(n))]
            tuple_defs = [n for n in ast.walk(fd) if isinstance(n, ast.Assign) and any(
                isinstance(t_, (ast.Tuple, ast.List)) and any(isinstance(x, ast.Name) and x.id == e.id for x in ast.walk(t_))
                for t_ in n.targets)]
            if other or tuple_defs:
                return None
            if not defs:
                return t
            if t is not None:
                # a parameter that is re-assigned: all values must agree
                tys = {self.static_type(d, fd, taint, depth + 1) for d in defs if not (
                    isinstance(d, ast.Name) and d.id == e.id)} | {t}
            else:
                tys = {self.static_type(d, fd, taint, depth + 1) for d in defs}
            return tys.pop() if len(tys) == 1 else None
        return None

    def raise_infeasible(self, st, fd, taint, ci=None):
        """the raise is guarded by a type test of a parameter whose static type (from the call chain) makes the
        guard false: isinstance(p, T) / type(p) in (...) / type(p) is T"""
        import re as _re
        try:
            lits = guard_literals(self.cfg(fd), self.cfg(fd).node_of(st))
        except AnalysisError:
            return False
        # (b) the guard contradicts an invariant established by the constructor's refusals
        if ci is not None and fd.name != "__init__":
            if id(ci) not in self._invs:
                from pyutil import ctor_invariants
                self._invs[id(ci)] = ctor_invariants(self.repo, ci)
            for inv in self._invs[id(ci)]:
                if inv <= set(lits):
                    return True
        # (b2) `t.is_alive()` right after an unconditional `t.join()` without a timeout is False
        for text, pol in lits:
            if pol and text.endswith(".is_alive()"):
                recv = text[:-len(".is_alive()")]
                cfg_ = self.cfg(fd)
                tgt_ = cfg_.node_of(st)
                for c_ in ast.walk(fd):
                    if isinstance(c_, ast.Call) and isinstance(c_.func, ast.Attribute) and c_.func.attr == "join" \
                            and canon(c_.func.value) == recv and not c_.args and not c_.keywords:
                        try:
                            if cfg_.dominates(cfg_.node_of(c_), tgt_):
                                return True
                        except AnalysisError:
                            pass
        # (b3) a comparison of a parameter with a constant, decided by the integer constant the call chain passes
        for text, pol in lits:
            m_ = _re.fullmatch(r"(\w+) (<|==) (-?\d+)", text) or _re.fullmatch(r"(-?\d+) (<|==) (\w+)", text)
            if not m_:
                continue
            a_, op_, b_ = m_.groups()
            if a_.lstrip("-").isdigit():
                name_, val_ = b_, taint.get("$const:" + b_)
                if val_ is None:
                    continue
                truth = (int(a_) < val_) if op_ == "<" else (int(a_) == val_)
            else:
                name_, val_ = a_, taint.get("$const:" + a_)
                if val_ is None:
                    continue
                truth = (val_ < int(b_)) if op_ == "<" else (val_ == int(b_))
            # the parameter must not be rebound in the function
            if any(isinstance(x, ast.Name) and x.id == name_ and isinstance(x.ctx, (ast.Store, ast.Del)) for x in ast.walk(fd)):
                continue
            if truth != pol:
                return True
        # (c) the guard contradicts what the caller established about the argument (not None / truthy)
        for text, pol in lits:
            if pol and text.startswith("None is ") and taint.get("$notnone:" + text[8:]):
                return True
            if (not pol) and taint.get("$notnone:" + text) and text.isidentifier():
                return True
        # (d) every parameter of the function is a socket address pair as recvfrom() reports it - (host string, port
        # 0..65535): the function is folded on witness pairs (ports at the bounds and next to every integer constant
        # the function compares with); a raise no witness reaches is a check that cannot fail for this call chain
        ps_all = [a.arg for a in fd.args.args if a.arg not in ("self", "cls")]
        ps_sa = [p_ for p_ in ps_all if taint.get("$sockaddr:" + p_)]
        if ps_sa and not fd.args.vararg and not fd.args.kwarg:
            try:
                from consteval import Ev, Unknown as _Unk, Raised as _Rai, Opaque as _Opq, _FALL as _FALL_
                consts = {x.value for x in ast.walk(fd) if isinstance(x, ast.Constant) and isinstance(x.value, int) and not isinstance(x.value, bool)}
                ports = sorted({0, 1, 5700, 65535} | {c + d for c in consts for d in (-1, 0, 1) if 0 <= c + d <= 65535})
                mod_ = ci.mod if ci is not None else getattr(fd, "_defmod", None)
                reached = False
                if mod_ is not None and len(ports) <= 64:
                    for host in ("127.0.0.1", "localhost"):
                        for port in ports:
                            env_ = {p_: _Opq("argument " + p_) for p_ in ps_all}
                            env_.update({p_: (host, port) for p_ in ps_sa})
                            e_ = Ev(self.repo, mod_, env=env_, self_cls=ci)
                            e_.ignore_calls = ("log.", "logging.")
                            try:
                                for top_ in fd.body:
                                    try:
                                        if e_.run_stmt(top_) is not _FALL_:
                                            break
                                    except _Unk:
                                        # statements after the raise do not matter; one before it that does not fold
                                        # leaves the question open
                                        if getattr(top_, "lineno", 0) > getattr(st, "end_lineno", st.lineno):
                                            break
                                        raise
                            except _Rai as r_:
                                if r_.node is None or r_.node is st or getattr(r_.node, "lineno", None) == st.lineno:
                                    reached = True
                    if not reached:
                        return True
            except (_Unk, RecursionError, AnalysisError):
                pass
        PY = {"str": {"str"}, "bytes": {"bytes"}}
        for text, pol in lits:
            m = _re.fullmatch(r"isinstance\((\w+), (.+)\)", text)
            m2 = _re.fullmatch(r"type\((\w+)\) (?:in|is|==) (.+)", text) or _re.fullmatch(r"(.+) (?:is|==) type\((\w+)\)", text)
            name, types = None, None
            if m:
                name, types = m.group(1), m.group(2)
            elif m2:
                g = m2.groups()
                name, types = (g[0], g[1]) if _re.fullmatch(r"\w+", g[0]) and "type(" in text.split(" ")[0] else (g[1], g[0])
            if name is None:
                continue
            ty = taint.get("$type:" + name)
            if ty is None:
                continue
            listed = set(_re.findall(r"[A-Za-z_]\w*", types))
            holds = bool(PY[ty] & listed) if ty in PY else None
            if holds is None:
                continue
            if holds != pol:
                return True         # this guard literal is false for the call chain's argument type
        return False

    def possible_strs(self, e, fd, ci, mod):
        """strings a name expression can evaluate to: a constant, or a loop variable running over a class-level
        dict / list / tuple of string constants"""
        if isinstance(e, ast.Constant) and isinstance(e.value, str):
            return [e.value]
        if not isinstance(e, ast.Name):
            return None
        for lp in ast.walk(fd):
            if not isinstance(lp, ast.For):
                continue
            tg = lp.target
            pos = None
            if isinstance(tg, ast.Name) and tg.id == e.id:
                pos = "self"
            elif isinstance(tg, (ast.Tuple, ast.List)):
                for i_, x in enumerate(tg.elts):
                    if isinstance(x, ast.Name) and x.id == e.id:
                        pos = i_
            if pos is None:
                continue
            it = lp.iter
            meth = None
            if isinstance(it, ast.Call) and isinstance(it.func, ast.Attribute) and it.func.attr in ("items", "values", "keys") and not it.args:
                meth, it = it.func.attr, it.func.value
            if isinstance(it, (ast.Tuple, ast.List, ast.Dict)):
                v_ = it             # a literal table written in place
            elif not (isinstance(it, ast.Attribute) and isinstance(it.value, ast.Name) and it.value.id in ("self", "cls") and ci is not None):
                return None
            else:
                c_, v_ = self.repo.find_attr(ci, it.attr)
            if v_ is None:
                return None
            try:
                val = ast.literal_eval(v_)
            except (ValueError, SyntaxError):
                return None
            if isinstance(val, dict):
                seq = list(val.items()) if meth == "items" else list(val.values()) if meth == "values" else list(val.keys())
            else:
                seq = list(val)
            out = []
            for item in seq:
                x = item if pos == "self" else (item[pos] if isinstance(item, (tuple, list)) and pos < len(item) else None)
                if not isinstance(x, str):
                    return None
                out.append(x)
            return out
        return None

    def qn(self, ci, fd):
        return "%s.%s" % (ci.name, fd.name) if ci is not None else fd.name

    def site(self, kind, exc, node, mod, ci, fd, desc, stack, chain, guard=None):
        caught = catches(stack, exc)
        self.sites.append(Site(kind, exc, node, mod, self.qn(ci, fd), desc, caught, list(chain), guard))

    def expr(self, e, st, ci, mod, fd, taint, stack, chain, synthetic=False):
        for n in ast.walk(e):
            if isinstance(n, ast.Call):
                self.call(n, st, ci, mod, fd, taint, stack, chain)
            elif isinstance(n, ast.Subscript) and isinstance(n.ctx, ast.Load):
                if isinstance(n.slice, ast.Slice):
                    continue
                base_t = self.expr_kind(n.value, taint, ci, mod) == "raw"
                idx_t = self.expr_tainted(n.slice, taint, ci, mod)
                if base_t and isinstance(n.slice, ast.Constant) and isinstance(n.slice.value, int):
                    self.site("subscript", "IndexError", n, mod, ci, fd,
                              "%s (constant index into received data)" % canon(n), stack, chain,
                              guard=("index", canon(n.value), n.slice.value, st))
                elif idx_t:
                    self.site("index", "IndexError", n, mod, ci, fd,
                              "%s (index computed from received data)" % canon(n), stack, chain)
            elif isinstance(n, ast.BinOp) and isinstance(n.op, (ast.Mod, ast.FloorDiv, ast.Div)):
                if isinstance(n.left, ast.Constant) and isinstance(n.left.value, str):
                    # string formatting: total when the number of conversions equals the number of values supplied; a
                    # mismatch raises TypeError whenever the statement runs (a half-converted log call, ...)
                    if isinstance(n.op, ast.Mod):
                        import re as _re
                        specs = _re.findall(r"%(?:\([^)]*\))?[#0\- +]*(?:\*|\d+)?(?:\.(?:\*|\d+))?[hlL]?([diouxXeEfFgGcrsa%])", n.left.value)
                        nspec = sum(1 for c_ in specs if c_ != "%") + n.left.value.count("*") - 0
                        named = "%(" in n.left.value
                        if not named:
                            nval = len(n.right.elts) if isinstance(n.right, ast.Tuple) else (None if isinstance(n.right, (ast.Name, ast.Attribute, ast.Call, ast.Subscript, ast.Starred)) and nspec != 1 else 1)
                            if isinstance(n.right, ast.Tuple) and any(isinstance(x, ast.Starred) for x in n.right.elts):
                                nval = None
                            if nval is not None and nval != nspec:
                                self.site("format", "TypeError", n if not synthetic else st, mod, ci, fd,
                                          "%s: %d conversion(s) for %d value(s)" % (canon(n)[:60], nspec, nval), stack, chain)
                    continue      # string formatting
                if isinstance(n.right, ast.Tuple):
                    continue
                if self.expr_tainted(n.right, taint, ci, mod) and not isinstance(n.right, ast.Constant):
                    self.site("div", "ZeroDivisionError", n if not synthetic else st, mod, ci, fd,
                              "%s (divisor from received data)" % canon(n), stack, chain)

    def call(self, n, st, ci, mod, fd, taint, stack, chain):
        f = n.func
        fname = canon(f)
        kinds = [self.expr_kind(a.value if isinstance(a, ast.Starred) else a, taint, ci, mod) for a in n.args] + \
                [self.expr_kind(k.value, taint, ci, mod) for k in n.keywords]
        if isinstance(f, ast.Attribute) and f.attr == "decode" and self.expr_kind(f.value, taint, ci, mod) == "raw":
            self.site("decode", "UnicodeDecodeError", n, mod, ci, fd, "%s of received octets" % canon(n), stack, chain)
            return
        if isinstance(f, ast.Attribute) and f.attr == "encode" and (n.args or n.keywords):
            # str.encode(codec): total for the Unicode transformation formats (text decoded from received octets holds
            # no lone surrogates), partial for every narrower codec unless an error handler other than 'strict' is given
            enc = n.args[0] if n.args else next((k.value for k in n.keywords if k.arg == "encoding"), None)
            err = n.args[1] if len(n.args) > 1 else next((k.value for k in n.keywords if k.arg == "errors"), None)
            wide = isinstance(enc, ast.Constant) and isinstance(enc.value, str) and \
                enc.value.lower().replace("_", "-") in ("utf-8", "utf8", "utf-16", "utf-32", "utf16", "utf32", "utf-16-le", "utf-16-be", "utf-32-le", "utf-32-be")
            lenient = isinstance(err, ast.Constant) and err.value in ("replace", "ignore", "backslashreplace", "xmlcharrefreplace", "namereplace", "surrogateescape", "surrogatepass")
            if enc is not None and not wide and not lenient and self.expr_tainted(f.value, taint, ci, mod):
                self.site("encode", "UnicodeEncodeError", n, mod, ci, fd, "%s of text that carries received characters" % canon(n), stack, chain)
                return
        if fname in ("int", "float") and "raw" in kinds:
            self.site("int", "ValueError", n, mod, ci, fd, "%s of received text" % canon(n), stack, chain)
            return
        if fname == "struct.unpack" and "raw" in kinds:
            self.site("unpack", "struct.error", n, mod, ci, fd, "%s of received octets" % canon(n), stack, chain,
                      guard=("unpack", n, st))
            return
        if fname in ("random.randint", "randint") and any(kinds):
            self.site("randint", "ValueError", n, mod, ci, fd, "%s (range from received data)" % canon(n), stack, chain)
            return
        if fname == "time.sleep" and any(kinds):
            self.site("sleep", "ValueError", n, mod, ci, fd, "%s (duration from received data)" % canon(n), stack, chain)
            return
        if fname == "next" and n.args:
            # next(it, default) is total; next(it) raises StopIteration on an exhausted iterator
            for a_ in n.args:
                self.expr(a_, st, ci, mod, fd, taint, stack, chain)
            if len(n.args) == 1 and any(kinds):
                self.site("next", "StopIteration", n, mod, ci, fd, "%s of a possibly empty selection" % canon(n)[:50], stack, chain)
            return
        if fname in ("setattr", "getattr", "hasattr") and n.args:
            # dynamic attribute access: total; a tainted value stored through setattr is an attribute store under
            # every name the (folded) name expression can take (whatever object it is stored on)
            if fname == "setattr" and len(n.args) == 3 and self.expr_tainted(n.args[2], taint, ci, mod):
                names = self.possible_strs(n.args[1], fd, ci, mod)
                if names is None:
                    self.unresolved.append((n, mod, self.qn(ci, fd)))
                    return
                for nm_ in names:
                    self.stores.append(AttrStore(nm_, st, mod, self.qn(ci, fd), n.args[2], self.cfg(fd)))
            return
        r = self.resolve(n, ci, mod, fd)
        if r == "safe":
            return
        if r is None:
            recv_kind = self.expr_kind(f.value, taint, ci, mod) if isinstance(f, ast.Attribute) else None
            if isinstance(f, ast.Attribute) and recv_kind == "num" and not any(k == "raw" for k in kinds):
                return      # method of a number / derived value (int.bit_length, ...): total
            if any(kinds) or recv_kind:
                self.unresolved.append((n, mod, self.qn(ci, fd)))
            return
        for c2, m2, self_first in r:
            t2 = self.bind(n, c2, m2, self_first, taint, ci, mod)
            # static types of the arguments (str / bytes), used to discard raises guarded by a type test that
            # cannot fail for this call chain
            ps_ = [a.arg for a in m2.args.args]
            pn_ = ps_[1:] if (c2 is not None and ps_ and ps_[0] in ("self", "cls")) else ps_
            as_ = list(n.args)[1:] if self_first is True else list(n.args)
            for i_, a_ in enumerate(as_):
                if i_ < len(pn_) and not isinstance(a_, ast.Starred):
                    ty = self.static_type(a_, fd, taint)
                    if ty:
                        t2["$type:" + pn_[i_]] = ty
            for kw_ in n.keywords:
                if kw_.arg is not None:
                    ty = self.static_type(kw_.value, fd, taint)
                    if ty:
                        t2["$type:" + kw_.arg] = ty
            # integer constants passed as arguments (e.g. the argument count of verify_cmd)
            for i_, a_ in enumerate(as_):
                if i_ < len(pn_) and isinstance(a_, ast.Constant) and isinstance(a_.value, int) and not isinstance(a_.value, bool):
                    t2["$const:" + pn_[i_]] = a_.value
                elif i_ < len(pn_) and isinstance(a_, ast.Name) and ("$const:" + a_.id) in taint:
                    t2["$const:" + pn_[i_]] = taint["$const:" + a_.id]
            for i_, a_ in enumerate(as_):
                if i_ < len(pn_) and isinstance(a_, ast.Name) and taint.get("$sockaddr:" + a_.id):
                    t2["$sockaddr:" + pn_[i_]] = True
            for kw_ in n.keywords:
                if kw_.arg is not None and isinstance(kw_.value, ast.Name) and taint.get("$sockaddr:" + kw_.value.id):
                    t2["$sockaddr:" + kw_.arg] = True
            # what the caller's guards say about plain-name arguments: truthy / not None
            try:
                cl_ = guard_literals(self.cfg(fd), self.cfg(fd).node_of(n))
            except AnalysisError:
                cl_ = set()
            for i_, a_ in enumerate(as_):
                if i_ < len(pn_) and isinstance(a_, ast.Name):
                    if (a_.id, True) in cl_ or ("None is " + a_.id, False) in cl_ or taint.get("$notnone:" + a_.id):
                        t2["$notnone:" + pn_[i_]] = True
            for t, k in taint.items():
                if t.startswith("self."):
                    t2.setdefault(t, k)
            cm = c2.mod if c2 is not None else getattr(m2, "_defmod", mod)
            self.visit(c2 if c2 is not None else None, cm, m2, t2, stack,
                       chain + [self.qn(c2, m2)], set())
