# E4 -- folding of closed, pure definitions (the powerset domain on finite
# sets = exact abstract interpretation of *data*).  A whitelisted evaluator
# over the AST: constants, arithmetic, comparisons, conditional expressions,
# comprehensions over literal ranges, enum tables, single-field struct
# models, and pure decision chains (`if/elif/return`) over declared finite
# domains.  It never touches message- or history-dependent code: anything
# outside the vocabulary raises Unknown (the caller turns that into an
# ANALYSIS-ERROR or treats the value as symbolic).

import ast
import operator
import struct

from report import AnalysisError


class Unknown(Exception):
    pass


class Raised(Exception):
    """The folded code raises (e.g. `raise ValueError(...)`)."""

    def __init__(self, cls, node=None):
        Exception.__init__(self, cls)
        self.cls = cls
        self.node = node


class EnumMember:
    def __init__(self, cls, name, value, attrs):
        self.cls = cls
        self.name = name
        self.value = value
        self.attrs = attrs

    def __repr__(self):
        return "%s.%s" % (self.cls, self.name)

    def __eq__(self, o):
        return isinstance(o, EnumMember) and (o.cls, o.name) == (self.cls, self.name)

    def __hash__(self):
        return hash((self.cls, self.name))


class Instance:
    """an object of a repository class about which nothing but its class is known (a message handed to a writer,
    ...); isinstance() and hooked method calls work on it"""

    def __init__(self, ci, label=None, attrs=None):
        self.ci = ci
        self.label = label or ci.name
        self.attrs = attrs          # {attribute: value} when the object's state is modelled, else None

    def __repr__(self):
        return "<%s object>" % self.label

    def __eq__(self, o):
        return isinstance(o, Instance) and o.label == self.label

    def __hash__(self):
        return hash(("Instance", self.label))


class Opaque:
    """a value the folder does not model (an object reached through attributes of self, ...);
    only usable as the receiver of a hooked call"""

    def __init__(self, text):
        self.text = text

    def __repr__(self):
        return "<opaque %s>" % self.text

    def __eq__(self, o):
        return isinstance(o, Opaque) and o.text == self.text

    def __hash__(self):
        return hash(("Opaque", self.text))


class StructObj:
    """struct.Struct(fmt): pack / unpack / unpack_from / size of a constant format"""

    def __init__(self, fmt):
        self.fmt = fmt
        self.s = struct.Struct(fmt)
        self.size = self.s.size
        self.format = fmt

    def __repr__(self):
        return "<Struct %s>" % self.fmt

    def __eq__(self, o):
        return isinstance(o, StructObj) and o.fmt == self.fmt

    def __hash__(self):
        return hash(("Struct", self.fmt))


class Arr(list):
    """array.array('b' | 'B', ...): a list of its items that remembers the type code (buffer protocol: tobytes(),
    bytes(a), translate tables)"""

    def __init__(self, tc, items):
        list.__init__(self, items)
        self.tc = tc

    def tobytes(self):
        return bytes(x & 0xff for x in self)


class ClassRef:
    def __init__(self, ci):
        self.ci = ci

    def __repr__(self):
        return "<classref %s>" % self.ci.name


_BIN = {
    ast.Add: operator.add, ast.Sub: operator.sub, ast.Mult: operator.mul,
    ast.FloorDiv: operator.floordiv, ast.Mod: operator.mod,
    ast.Div: operator.truediv, ast.Pow: operator.pow,
    ast.LShift: operator.lshift, ast.RShift: operator.rshift,
    ast.BitOr: operator.or_, ast.BitAnd: operator.and_,
    ast.BitXor: operator.xor,
}
_CMP = {
    ast.Eq: operator.eq, ast.NotEq: operator.ne, ast.Lt: operator.lt,
    ast.LtE: operator.le, ast.Gt: operator.gt, ast.GtE: operator.ge,
    ast.Is: lambda a, b: a is b or (isinstance(a, EnumMember) and a == b) or (a is None and b is None),
    ast.IsNot: lambda a, b: not (a is b or (isinstance(a, EnumMember) and a == b)),
    ast.In: lambda a, b: a in b, ast.NotIn: lambda a, b: a not in b,
}
_SAFE_BUILTINS = {
    "range": range, "len": len, "int": int, "bool": bool, "tuple": tuple,
    "list": list, "min": min, "max": max, "sum": sum, "abs": abs,
    "bytes": bytes, "bytearray": bytearray, "str": str, "sorted": sorted,
    "reversed": lambda x: list(reversed(x)), "float": float, "round": round,
    "divmod": divmod, "zip": lambda *a: list(zip(*a)), "set": set,
    "frozenset": frozenset, "enumerate": lambda x: list(enumerate(x)),
    "memoryview": lambda x: x, "dict": dict, "any": lambda x: any(x), "all": lambda x: all(x),
    "next": lambda it, *d: _next(it, *d),
    "iter": lambda x: iter(x),
}


def _next(it, *d):
    if not hasattr(it, "__next__"):
        raise TypeError("not an iterator")
    try:
        return next(it)
    except StopIteration:
        if d:
            return d[0]
        raise Raised("StopIteration")

_MAX_ITEMS = 70000
_BM = {}


def _bm(name):
    if name not in _BM:
        _BM[name] = ("builtin", name)
    return _BM[name]


_TYPES = {"int": int, "str": str, "tuple": tuple, "list": list, "bytes": bytes, "bytearray": bytearray, "bool": bool,
          "float": float, "set": set, "frozenset": frozenset, "range": range}


class Ev:
    ignore_calls = ("log.",)     # statements calling these are skipped by run_stmt

    def _mk(self, *a, **kw):
        e = type(self)(self.repo, *a, **kw)
        e.hooks = self.hooks
        e.gstate = self.gstate
        if getattr(self, "model_objects", False):
            e.model_objects = True
        if "ignore_calls" in self.__dict__:
            e.ignore_calls = self.ignore_calls
        return e

    def __init__(self, repo, mod, env=None, self_cls=None, depth=0):
        self.hooks = {}      # canonical callee text -> callable(list of folded args) (oracles for impure callees)
        self.repo = repo
        self.mod = mod
        self.env = dict(env or {})
        self.self_cls = self_cls      # ClassInfo for `self.X` / cls attrs
        self.depth = depth
        self.gstate = {}     # module-level mutable objects of this evaluation session: (module, name) -> the ONE object

    # -- enum tables -------------------------------------------------------
    def enum_members(self, ci):
        """All members of an Enum class as EnumMember list (declaration
        order)."""
        init = ci.methods.get("__init__")
        amap = []
        if init is not None:
            params = [a.arg for a in init.args.args][1:]
            defaults = init.args.defaults
            dvals = {}
            for p, d in zip(params[len(params) - len(defaults):], defaults):
                dvals[p] = self.ev(d)
            for st in init.body:
                if isinstance(st, ast.Assign) and len(st.targets) == 1:
                    t = st.targets[0]
                    if isinstance(t, ast.Attribute) and isinstance(t.value, ast.Name) \
                            and t.value.id == "self":
                        amap.append((t.attr, st.value))
        out = []
        for st in ci.node.body:
            if isinstance(st, ast.Assign) and len(st.targets) == 1 and \
                    isinstance(st.targets[0], ast.Name):
                name = st.targets[0].id
                if name.startswith("_"):
                    continue
                val = self._mk(ci.mod, self_cls=None).ev(st.value)
                attrs = {}
                if init is not None:
                    tup = val if isinstance(val, tuple) else (val,)
                    env = dict(dvals)
                    for p, v in zip(params, tup):
                        env[p] = v
                    if len(tup) > len(params):
                        raise AnalysisError("enum %s.%s: too many values" % (ci.name, name))
                    e2 = self._mk(ci.mod, env=env)
                    for a, expr in amap:
                        try:
                            attrs[a] = e2.ev(expr)
                        except Unknown:
                            pass
                    if len(attrs) < len({a for a, _ in amap}):
                        # the constructor computes through locals: run its statements in order
                        e3 = self._mk(ci.mod, env=dict(env))
                        for st3 in init.body:
                            try:
                                if e3.run_stmt(st3) is not _FALL:
                                    break
                            except (Unknown, Raised):
                                for x3 in ast.walk(st3):
                                    if isinstance(x3, ast.Name) and isinstance(x3.ctx, ast.Store):
                                        e3.env.pop(x3.id, None)
                        for k3, v3 in e3.env.items():
                            if k3.startswith("self.") and k3[5:] not in attrs and k3[5:] in {a for a, _ in amap}:
                                attrs[k3[5:]] = v3
                out.append(EnumMember(ci.name, name, val, attrs))
        return out

    def module_built(self, mod, name):
        """value of a module-level name that is built by several module-level statements (table filled by a loop, ...):
        those statements are folded in order"""
        cache = getattr(mod, "_built_cache", None)
        if cache is None:
            cache = mod._built_cache = {}
        if name in cache:
            if cache[name] is _BUILDING:
                raise Unknown("recursive module-level definition of %s" % name)
            if isinstance(cache[name], Unknown):
                raise cache[name]
            return cache[name]
        cache[name] = _BUILDING
        sub = self._mk(mod, {}, None, self.depth + 1)
        try:
            for st in mod.built[name]:
                r = sub.run_stmt(st)
                if r is not _FALL:
                    raise Unknown("module-level statement returns")
            if name not in sub.env:
                raise Unknown("module-level name %s deleted or never bound" % name)
        except Unknown as e:
            cache[name] = e
            raise
        except Raised as e:
            cache[name] = Unknown("module-level definition of %s raises %s" % (name, e.cls))
            raise cache[name]
        cache[name] = sub.env[name]
        return cache[name]

    def is_enum(self, ci):
        return any(b == "Enum" for b in ci.bases)

    # -- expression evaluation --------------------------------------------
    def ev(self, n):
        m = getattr(self, "ev_" + type(n).__name__, None)
        if m is None:
            raise Unknown("node %s" % type(n).__name__)
        return m(n)

    def ev_Constant(self, n):
        return n.value

    def ev_Name(self, n):
        if n.id in self.env:
            return self.env[n.id]
        if n.id == "self" and self.self_cls is not None:
            return Instance(self.self_cls, "self")     # the object under evaluation, passed on as a value
        r = self.repo.lookup(self.mod, n.id)
        if r is not None:
            if r[0] == "const":
                if n.id in getattr(r[2], "built", {}):
                    return self.module_built(r[2], n.id)
                gk = (getattr(r[2], "name", id(r[2])), n.id)
                if gk in self.gstate:
                    return self.gstate[gk]
                v = self._mk(r[2], depth=self.depth + 1).ev(r[1])
                if isinstance(v, (dict, list, set, bytearray)):
                    # a module-level container is ONE object for the life of the process: what one call stores in it
                    # (a lookup memo, a registry) the next call finds
                    self.gstate[gk] = v
                return v
            if r[0] == "class":
                return ClassRef(r[1])
            if r[0] == "func":
                return ("func", r[1], r[2])
        if n.id in ("True", "False", "None"):
            return {"True": True, "False": False, "None": None}[n.id]
        if n.id in _SAFE_BUILTINS:
            return _bm(n.id)
        if n.id in ("dict", "type", "isinstance", "NoneType", "array", "memoryview"):
            return _bm(n.id)
        if self.self_cls is not None:
            # a class-level expression refers to earlier class-level names by their bare name
            c_, v_ = self.repo.find_attr(self.self_cls, n.id)
            if v_ is not None and self.depth < 12:
                if self.class_env(c_) is not None:
                    return self.class_attr(c_, n.id)
                return self._mk(c_.mod, self_cls=c_, depth=self.depth + 1).ev(v_)
            # a function of the class body used as a value by a later class-level statement (a dispatch table)
            c_, m_ = self.repo.find_method(self.self_cls, n.id)
            if m_ is not None and not m_.decorator_list:
                return ("method", m_, c_)
        raise Unknown("name %s" % n.id)

    def class_env(self, ci):
        """A class body that is more than a list of `NAME = expr` lines (a loop filling a table, `del`, item stores) is
        executed statement by statement; names a statement that does not fold may have touched are poisoned."""
        simple = (ast.FunctionDef, ast.AsyncFunctionDef, ast.ClassDef, ast.Pass, ast.AnnAssign)
        if all(isinstance(st, simple) or isinstance(st, ast.Expr) and isinstance(st.value, ast.Constant)
               or isinstance(st, ast.Assign) and all(isinstance(t, ast.Name) for t in st.targets) for st in ci.node.body):
            return None
        cache = self.repo.__dict__.setdefault("_class_env", {})
        if id(ci) in cache:
            return cache[id(ci)]
        cache[id(ci)] = ({}, {x.id for x in ast.walk(ci.node) if isinstance(x, ast.Name)})     # (re-entrancy: nothing known)
        sub = self._mk(ci.mod, {}, None, self.depth + 1)
        poisoned = set()
        for st in ci.node.body:
            if isinstance(st, (ast.FunctionDef, ast.AsyncFunctionDef, ast.ClassDef)):
                continue
            names = {x.id for x in ast.walk(st) if isinstance(x, ast.Name)}
            try:
                if names & poisoned:
                    raise Unknown("poisoned")
                r = sub.run_stmt(st)
                if r is not _FALL:
                    raise Unknown("class body control flow")
            except (Unknown, Raised, RecursionError):
                poisoned |= names
                for k in names:
                    sub.env.pop(k, None)
        cache[id(ci)] = (sub.env, poisoned)
        return cache[id(ci)]

    def class_attr(self, ci, attr):
        import copy
        for c_ in self.repo.mro(ci):
            if ("class", c_.name, attr) in self.gstate:
                return self.gstate[("class", c_.name, attr)]
        for c_ in self.repo.mro(ci):
            ce = self.class_env(c_)
            if ce is None:
                if attr in c_.attrs or attr in c_.methods:
                    break
                continue
            if attr in ce[1]:
                raise Unknown("class attr %s.%s (class body statement does not fold)" % (c_.name, attr))
            if attr in ce[0]:
                return copy.deepcopy(ce[0][attr])
            if attr in c_.attrs or attr in c_.methods:
                break
        c, v = self.repo.find_attr(ci, attr)
        if v is not None:
            gk = ("class", c.name, attr)
            if gk in self.gstate:
                return self.gstate[gk]
            r = self._mk(c.mod, self_cls=c, depth=self.depth + 1).ev(v)
            if isinstance(r, (dict, list, set, bytearray)):
                self.gstate[gk] = r       # a class-level container is one object shared by all instances and calls
            return r
        # property with a pure body?
        c, m = self.repo.find_method(ci, attr)
        if m is not None and any(isinstance(d, ast.Name) and d.id == "property"
                                 for d in m.decorator_list):
            return self.call_func(m, c.mod, [("self", "<self>")], self_cls=ci)
        if m is not None and not m.decorator_list:
            return Opaque("self.%s" % attr)      # a bound method of the object under evaluation, taken as a value
        raise Unknown("class attr %s.%s" % (ci.name, attr))

    def ev_Attribute(self, n):
        key = ast.unparse(n)
        if key in self.env:
            return self.env[key]
        if key in _LIB_CONSTS and key.split(".")[0] not in self.env:
            return _LIB_CONSTS[key]
        if isinstance(n.value, ast.Name) and n.value.id in ("self", "cls") and \
                n.value.id not in self.env:
            if self.self_cls is None:
                raise Unknown(key)
            return self.class_attr(self.self_cls, n.attr)
        # module alias: codec.X
        if isinstance(n.value, ast.Name) and n.value.id in self.mod.imports and \
                n.value.id not in self.env:
            mn = self.mod.imports[n.value.id]
            if self.repo.has_mod(mn):
                m2 = self.repo.mod(mn)
                r = self.repo.lookup(m2, n.attr)
                if r and r[0] == "class":
                    return ClassRef(r[1])
                if r and r[0] == "const":
                    return self._mk(r[2]).ev(r[1])
                if r and r[0] == "func":
                    return ("func", r[1], r[2])
            raise Unknown(key)
        base = self.ev(n.value)
        if isinstance(base, ClassRef):
            ci = base.ci
            if self.is_enum(ci):
                for mem in self.enum_members(ci):
                    if mem.name == n.attr:
                        return mem
            if n.attr in ci.inner:
                return ClassRef(ci.inner[n.attr])
            c, meth = self.repo.find_method(ci, n.attr)
            if meth is not None and not any(
                    isinstance(d, ast.Name) and d.id == "property" for d in meth.decorator_list):
                return ("method", meth, c)
            return self.class_attr(ci, n.attr)
        if isinstance(base, EnumMember):
            if n.attr in base.attrs:
                return base.attrs[n.attr]
            if n.attr == "value":
                return base.value
            if n.attr == "name":
                return base.name
            raise Unknown(key)
        if isinstance(base, dict) and n.attr in base:
            return base[n.attr]
        if isinstance(base, Instance) and base.attrs is not None and n.attr in base.attrs:
            return base.attrs[n.attr]
        if isinstance(base, Opaque) and "%s.%s" % (base.text, n.attr) in self.hooks:
            return Opaque("%s.%s" % (base.text, n.attr))        # bound method of a hooked object, taken as a value
        if isinstance(base, Opaque) and getattr(base, "ci", None) is not None and n.attr.upper() == n.attr:
            # an oracle object known to be of a toolkit class: its class-level CONSTANTS are the class's
            return self._mk(base.ci.mod, {}, base.ci, self.depth + 1).class_attr(base.ci, n.attr)
        raise Unknown(key)

    def ev_BinOp(self, n):
        f = _BIN.get(type(n.op))
        if f is None:
            raise Unknown("binop")
        a, b = self.ev(n.left), self.ev(n.right)
        if isinstance(n.op, ast.Pow) and isinstance(b, int) and abs(b) > 4096:
            raise Unknown("pow")
        if isinstance(n.op, (ast.Mult,)) and isinstance(a, (list, bytes, bytearray, str)) \
                and isinstance(b, int) and b * max(1, len(a)) > _MAX_ITEMS:
            raise Unknown("big repeat")
        try:
            return f(a, b)
        except Exception as e:
            raise Unknown("binop failed: %s" % e)

    def ev_UnaryOp(self, n):
        v = self.ev(n.operand)
        if isinstance(n.op, ast.Not):
            return not v
        if isinstance(n.op, ast.USub):
            return -v
        if isinstance(n.op, ast.UAdd):
            return +v
        if isinstance(n.op, ast.Invert):
            return ~v
        raise Unknown("unary")

    def ev_BoolOp(self, n):
        if isinstance(n.op, ast.And):
            v = True
            for e in n.values:
                v = self.ev(e)
                if not v:
                    return v
            return v
        v = False
        for e in n.values:
            v = self.ev(e)
            if v:
                return v
        return v

    def ev_Compare(self, n):
        left = self.ev(n.left)
        for op, c in zip(n.ops, n.comparators):
            right = self.ev(c)
            f = _CMP.get(type(op))
            if f is None:
                raise Unknown("cmp")
            if isinstance(op, (ast.Eq, ast.NotEq)) and getattr(self, "model_objects", False) \
                    and any(isinstance(x, Instance) and x.attrs is not None for x in (left, right)):
                res = self._object_eq(left, right) if isinstance(left, Instance) and left.attrs is not None else self._object_eq(right, left)
                if (not res) if isinstance(op, ast.Eq) else res:
                    return False
                left = right
                continue
            if isinstance(left, ClassRef) and isinstance(right, ClassRef) and isinstance(op, (ast.Is, ast.IsNot, ast.Eq, ast.NotEq)):
                same = left.ci is right.ci          # a class is one object, however often its name is evaluated
                if same != isinstance(op, (ast.Is, ast.Eq)):
                    return False
                left = right
                continue
            try:
                if not f(left, right):
                    return False
            except TypeError as e:
                raise Raised("TypeError", n)
            left = right
        return True

    def _object_eq(self, obj, other):
        """obj == other for a modelled object: its class's __eq__ evaluated on its attributes, identity without one"""
        c_, m_ = self.repo.find_method(obj.ci, "__eq__")
        if m_ is None:
            return obj is other
        env = {"self." + k: v for k, v in obj.attrs.items()}
        ps = [a.arg for a in m_.args.args]
        env[ps[1]] = other
        sub = self._mk(c_.mod, env, obj.ci, self.depth + 1)
        sub.model_objects = True
        r = sub.run_block(m_.body)
        v = r[1] if isinstance(r, tuple) else None
        if v is NotImplemented or v is None:
            return obj is other
        return bool(v)

    def ev_IfExp(self, n):
        return self.ev(n.body) if self.ev(n.test) else self.ev(n.orelse)

    def ev_Tuple(self, n):
        out = []
        for e in n.elts:
            if isinstance(e, ast.Starred):
                out.extend(self.ev(e.value))
            else:
                out.append(self.ev(e))
        return tuple(out)

    def ev_List(self, n):
        return list(self.ev_Tuple(n))

    def ev_Set(self, n):
        return set(self.ev_Tuple(n))

    def ev_Dict(self, n):
        return {self.ev(k): self.ev(v) for k, v in zip(n.keys, n.values)}

    def ev_Subscript(self, n):
        base = self.ev(n.value)
        s = n.slice
        try:
            if isinstance(s, ast.Slice):
                lo = self.ev(s.lower) if s.lower is not None else None
                hi = self.ev(s.upper) if s.upper is not None else None
                st = self.ev(s.step) if s.step is not None else None
                r_ = base[lo:hi:st]
                return Arr(base.tc, r_) if isinstance(base, Arr) else r_       # a slice of an array is an array
            return base[self.ev(s)]
        except (IndexError, KeyError, TypeError) as e:
            raise Raised(type(e).__name__, n)

    def _comp(self, n, gens, env, out, elt):
        if not gens:
            out.append(self._mk(self.mod, env, self.self_cls, self.depth).ev(elt))
            if len(out) > _MAX_ITEMS:
                raise Unknown("comprehension too large")
            return
        g = gens[0]
        it = self._mk(self.mod, env, self.self_cls, self.depth).ev(g.iter)
        if isinstance(it, ClassRef) and self.is_enum(it.ci):
            it = self.enum_members(it.ci)
        for v in it:
            e2 = dict(env)
            self._bind(g.target, v, e2)
            sub = self._mk(self.mod, e2, self.self_cls, self.depth)
            if all(sub.ev(c) for c in g.ifs):
                self._comp(n, gens[1:], e2, out, elt)

    def _bind(self, target, v, env):
        if isinstance(target, ast.Name):
            env[target.id] = v
        elif isinstance(target, (ast.Tuple, ast.List)):
            v = list(v)
            if len(v) != len(target.elts):
                raise Unknown("unpack")
            for t, x in zip(target.elts, v):
                self._bind(t, x, env)
        elif isinstance(target, ast.Attribute):
            if isinstance(target.value, ast.Name) and target.value.id not in env and target.value.id not in ("self", "cls"):
                r_ = self.repo.lookup(self.mod, target.value.id)
                if r_ is not None and r_[0] == "class":
                    # a store through the class name: class-level state, seen by every object of the session
                    c_, _v = self.repo.find_attr(r_[1], target.attr)
                    self.gstate[("class", (c_ or r_[1]).name, target.attr)] = v
                    return
            env[ast.unparse(target)] = v
        else:
            raise Unknown("bind target")

    def ev_ListComp(self, n):
        out = []
        self._comp(n, n.generators, self.env, out, n.elt)
        return out

    def _comp_lazy(self, gens, env, elt, first=None):
        """generator semantics: elements are produced on demand (a consumer that stops early - any / all / next -
        leaves the side effects of the remaining elements undone)"""
        if not gens:
            yield self._mk(self.mod, env, self.self_cls, self.depth).ev(elt)
            return
        g = gens[0]
        it = first if first is not None else self._mk(self.mod, env, self.self_cls, self.depth).ev(g.iter)
        if isinstance(it, ClassRef) and self.is_enum(it.ci):
            it = self.enum_members(it.ci)
        n = 0
        for v in it:
            n += 1
            if n > _MAX_ITEMS:
                raise Unknown("generator too large")
            e2 = dict(env)
            self._bind(g.target, v, e2)
            sub = self._mk(self.mod, e2, self.self_cls, self.depth)
            if all(sub.ev(c) for c in g.ifs):
                for x in self._comp_lazy(gens[1:], e2, elt):
                    yield x

    def ev_GeneratorExp(self, n):
        # the outermost iterable is evaluated at once, everything else when the generator is consumed
        first = self.ev(n.generators[0].iter)
        if isinstance(first, ClassRef) and self.is_enum(first.ci):
            first = self.enum_members(first.ci)
        return self._comp_lazy(n.generators, self.env, n.elt, first=first)

    def ev_SetComp(self, n):
        return set(self.ev_ListComp(n))

    def ev_DictComp(self, n):
        out = []
        self._comp(n, n.generators, self.env, out, ast.Tuple(elts=[n.key, n.value], ctx=ast.Load()))
        d = {}
        for k, v in out:
            try:
                d[k] = v
            except TypeError:
                raise Raised("TypeError", n)
        return d

    def ev_JoinedStr(self, n):
        out = ""
        for v in n.values:
            if isinstance(v, ast.Constant):
                out += str(v.value)
                continue
            if not isinstance(v, ast.FormattedValue):
                raise Unknown("fstring part")
            val = self.ev(v.value)
            if not isinstance(val, (int, str, bytes, float, bool, type(None), list, tuple)):
                raise Unknown("fstring value %s" % type(val).__name__)
            if v.conversion == 114:
                val = repr(val)
            elif v.conversion == 115:
                val = str(val)
            elif v.conversion == 97:
                val = ascii(val)
            spec = ""
            if v.format_spec is not None:
                spec = self.ev_JoinedStr(v.format_spec)
            try:
                out += format(val, spec)
            except (ValueError, TypeError) as e:
                raise Raised(type(e).__name__, n)
        return out

    def ev_Call(self, n):
        fname = ast.unparse(n.func)

        def kwargs_of():
            out = {}
            for k in n.keywords:
                v = self.ev(k.value)
                if k.arg is None:
                    if not isinstance(v, dict) or not all(isinstance(x, str) for x in v):
                        raise Unknown("**kw of a non-dict")
                    out.update(v)
                else:
                    out[k.arg] = v
            return out
        if fname in self.hooks:
            h = self.hooks[fname]
            hargs = []
            for a in n.args:
                if isinstance(a, ast.Starred):
                    hargs.extend(self.ev(a.value))
                else:
                    hargs.append(self.ev(a))
            if getattr(h, "wants_kw", False):
                return h(hargs, kwargs_of())
            if any(k.arg is None for k in n.keywords):
                raise Unknown("**kw")
            return h(hargs)
        if n.keywords and any(k.arg is None for k in n.keywords) and not (
                isinstance(n.func, ast.Name) or (isinstance(n.func, ast.Attribute) and isinstance(n.func.value, ast.Name) and n.func.value.id == "self")):
            raise Unknown("**kw")
        if isinstance(n.func, ast.Name) and self.hooks and isinstance(self.env.get(n.func.id), Opaque) \
                and self.env[n.func.id].text in self.hooks and not n.keywords:
            # a bound method of a hooked object held in a local (`tick = trx.clck_tick; tick(a, b)`)
            hargs = []
            for a in n.args:
                if isinstance(a, ast.Starred):
                    hargs.extend(self.ev(a.value))
                else:
                    hargs.append(self.ev(a))
            h = self.hooks[self.env[n.func.id].text]
            return h(hargs, {}) if getattr(h, "wants_kw", False) else h(hargs)
        if isinstance(n.func, ast.Attribute) and self.hooks:
            # receiver given through a local alias of the hooked object
            recv = n.func.value
            if isinstance(recv, ast.Name) and isinstance(self.env.get(recv.id), Opaque):
                full = "%s.%s" % (self.env[recv.id].text, n.func.attr)
                if full in self.hooks:
                    return self.hooks[full]([self.ev(a) for a in n.args])
            root, chain = recv, []
            while isinstance(root, ast.Attribute):
                chain.append(root.attr)
                root = root.value
            if chain and isinstance(root, ast.Name) and isinstance(self.env.get(root.id), Opaque):
                full = ".".join([self.env[root.id].text] + chain[::-1] + [n.func.attr])
                if full in self.hooks:
                    return self.hooks[full]([self.ev(a) for a in n.args])
        args = []
        dyn_attr = fname in ("getattr", "setattr", "hasattr") and n.args and _self_rooted(n.args[0]) and "self" not in self.env
        for i_, a in enumerate(n.args):
            if dyn_attr and i_ == 0:
                args.append(None)           # the object itself is not evaluated: only its attribute is read / written
            elif isinstance(a, ast.Starred):
                args.extend(self.ev(a.value))
            else:
                args.append(self.ev(a))
        kw = kwargs_of()
        if fname in ("getattr", "setattr", "hasattr") and n.args and _self_rooted(n.args[0]) and "self" not in self.env \
                and len(args) >= 2 and isinstance(args[1], str) and not kw:
            # attribute of the object under evaluation (or of an object reached from it) selected by a folded name
            key = ast.unparse(n.args[0]) + "." + args[1]
            node = ast.Attribute(value=n.args[0], attr=args[1], ctx=ast.Load())
            if fname == "setattr" and len(args) == 3:
                self.env[key] = args[2]
                return None
            try:
                v = self.ev(node)
                return True if fname == "hasattr" else v
            except Unknown:
                if fname == "hasattr":
                    raise
                if len(args) == 3:
                    raise Unknown("getattr default for an unmodelled attribute %s" % args[1])
                raise
        if fname in ("str", "repr") and len(n.args) == 1 and not kw and isinstance(n.args[0], ast.Name) and n.args[0].id == "self" \
                and "self" not in self.env and self.self_cls is not None:
            for dn in (("__str__", "__repr__") if fname == "str" else ("__repr__",)):
                c_, m_ = self.repo.find_method(self.self_cls, dn)
                if m_ is not None:
                    return self.call_func(m_, c_.mod, [("self", "<self>")], self_cls=self.self_cls)
            raise Unknown("%s(self) without %s" % (fname, "__str__"))
        if fname in ("str", "repr") and len(args) == 1 and not kw and isinstance(args[0], Instance) and args[0].attrs is not None:
            # str() / repr() of a modelled object: its class's own __str__ / __repr__ evaluated on its attributes
            for dn in (("__str__", "__repr__") if fname == "str" else ("__repr__",)):
                c_, m_ = self.repo.find_method(args[0].ci, dn)
                if m_ is not None:
                    sub = self._mk(c_.mod, {"self." + k_: v_ for k_, v_ in args[0].attrs.items()}, args[0].ci, self.depth + 1)
                    r_ = sub.run_block(m_.body)
                    return r_[1] if isinstance(r_, tuple) else None
            raise Unknown("%s() of an object without %s" % (fname, "__str__"))
        if fname == "type" and len(args) == 1 and not kw:
            tn = type(args[0]).__name__
            if tn in _TYPES or tn == "NoneType":
                return _bm(tn)
            if isinstance(args[0], EnumMember):
                for m_ in self.repo.tk_modules():
                    if str(args[0].cls) in m_.classes:
                        return ClassRef(m_.classes[str(args[0].cls)])
            if isinstance(args[0], Instance):
                return ClassRef(args[0].ci)
            raise Unknown("type() of %s" % tn)
        if fname == "isinstance" and len(args) == 2 and not kw:
            ts = args[1] if isinstance(args[1], tuple) and not (len(args[1]) == 2 and args[1][0] == "builtin") else (args[1],)
            if isinstance(args[0], Instance) and all(isinstance(t, ClassRef) for t in ts):
                names = {c.name for c in self.repo.mro(args[0].ci)}
                return any(t.ci.name in names for t in ts)
            if all(isinstance(t, ClassRef) for t in ts) and isinstance(args[0], (int, str, bytes, bytearray, list, tuple, dict, type(None))):
                return False
            py = []
            for t in ts:
                if isinstance(t, tuple) and len(t) == 2 and t[0] == "builtin" and t[1] in _TYPES:
                    py.append(_TYPES[t[1]])
                elif isinstance(t, tuple) and len(t) == 2 and t[0] == "builtin" and t[1] == "array":
                    py.append(Arr)
                elif isinstance(t, tuple) and len(t) == 2 and t[0] == "builtin" and t[1] == "memoryview":
                    py.append(memoryview)
                else:
                    raise Unknown("isinstance type")
            if isinstance(args[0], (EnumMember, ClassRef, Opaque, ReMatch)):
                return False
            return isinstance(args[0], tuple(py))
        if fname == "re.compile" and len(args) in (1, 2) and isinstance(args[0], str) and not kw:
            import re as _re
            try:
                return ReCompiled(_re.compile(*args))
            except (_re.error, TypeError):
                raise Raised("re.error", n)
        # regular expressions with constant pattern and subject: pure library functions
        if fname in ("re.match", "re.fullmatch", "re.search") and not kw and len(args) == 2 \
                and isinstance(args[0], str) and isinstance(args[1], str):
            import re as _re
            try:
                m = getattr(_re, fname[3:])(args[0], args[1])
            except _re.error:
                raise Raised("re.error", n)
            return None if m is None else ReMatch(m)
        if fname in ("bytes.maketrans", "bytearray.maketrans", "str.maketrans") and not kw:
            try:
                return {"bytes": bytes, "bytearray": bytearray, "str": str}[fname.split(".")[0]].maketrans(*args)
            except (ValueError, TypeError) as e_:
                raise Raised(type(e_).__name__, n)
        if fname in ("bytes.fromhex", "bytearray.fromhex") and len(args) == 1 and isinstance(args[0], str) and not kw:
            try:
                return {"bytes": bytes, "bytearray": bytearray}[fname.split(".")[0]].fromhex(args[0])
            except ValueError:
                raise Raised("ValueError", n)
        if fname in ("struct.Struct", "Struct") and len(args) == 1 and isinstance(args[0], (str, bytes)) and not kw:
            try:
                return StructObj(args[0])
            except struct.error:
                raise Raised("struct.error", n)
        # struct single-field models
        if fname == "struct.pack" and not kw:
            try:
                return struct.pack(*args)
            except struct.error:
                raise Raised("struct.error", n)
        if fname == "struct.unpack" and not kw:
            try:
                return struct.unpack(args[0], bytes(args[1]))
            except struct.error:
                raise Raised("struct.error", n)
        if fname == "array" and len(args) == 2 and not kw:
            # array(typecode, iterable): model as list with range check
            tc, items = args
            rng = {"b": (-128, 127), "B": (0, 255)}.get(tc)
            if rng is None:
                raise Unknown("array typecode")
            if isinstance(items, (bytes, bytearray)):
                # a bytes-like initialiser is raw machine data: octets are reinterpreted, not range-checked
                return Arr(tc, [(x - 256 if (tc == "b" and x >= 128) else x) for x in items])
            items = list(items)
            for x in items:
                if not (isinstance(x, int) and rng[0] <= x <= rng[1]):
                    raise Raised("OverflowError", n)
            return Arr(tc, items)
        if fname == "operator.index" and len(args) == 1 and not kw:
            if isinstance(args[0], int):
                return int(args[0])
            if isinstance(args[0], (str, bytes, float, list, tuple, dict, type(None))):
                raise Raised("TypeError", n)
            raise Unknown("operator.index of %s" % type(args[0]).__name__)
        if fname == "int.from_bytes":
            return int.from_bytes(*args, **kw)
        # instance method of the object under evaluation: self.helper(...)
        if isinstance(n.func, ast.Attribute) and isinstance(n.func.value, ast.Name) and n.func.value.id == "self" \
                and "self" not in self.env and self.self_cls is not None and ast.unparse(n.func) not in self.env:
            c_, m_ = self.repo.find_method(self.self_cls, n.func.attr)
            decos = {d.id for d in m_.decorator_list if isinstance(d, ast.Name)} if m_ is not None else set()
            if m_ is not None and not (decos & {"staticmethod", "classmethod", "property"}):
                bound = self._bindargs(m_, ["<self>"] + args, kw)
                return self.call_func(m_, c_.mod, bound, self_cls=self.self_cls, writeback=True)
            if m_ is not None and "staticmethod" in decos:
                return self.call_func(m_, c_.mod, self._bindargs(m_, args, kw), self_cls=self.self_cls)
            if m_ is not None and "classmethod" in decos:
                return self.call_func(m_, c_.mod, self._bindargs(m_, [ClassRef(self.self_cls)] + args, kw), self_cls=self.self_cls)
        f = None
        try:
            f = self.ev(n.func)
        except Unknown:
            # method call on a value: x.to_bytes, etc.
            if isinstance(n.func, ast.Attribute):
                recv = self.ev(n.func.value)
                return self._method(recv, n.func.attr, args, kw, n)
            raise
        if isinstance(f, tuple) and f and f[0] == "builtin" and f[1] in ("list", "tuple", "sorted") \
                and len(args) == 1 and isinstance(args[0], ClassRef) and self.is_enum(args[0].ci):
            return list(self.enum_members(args[0].ci))
        if isinstance(f, tuple) and f and f[0] == "builtin" and f[1] in ("bytes", "bytearray") and len(args) == 1 \
                and isinstance(args[0], Arr) and not kw:
            return _SAFE_BUILTINS[f[1]](args[0].tobytes())          # buffer protocol
        if isinstance(f, tuple) and f and f[0] == "builtin":
            if f[1] not in _SAFE_BUILTINS:
                raise Unknown("builtin %s" % f[1])
            try:
                return _SAFE_BUILTINS[f[1]](*args, **kw)
            except (ValueError, TypeError, OverflowError) as e:
                raise Raised(type(e).__name__, n)
        if isinstance(f, tuple) and f and f[0] == "func":
            return self.call_func(f[1], f[2], self._bindargs(f[1], args, kw))
        if isinstance(f, tuple) and f and f[0] == "method":
            meth, ci = f[1], f[2]
            static = any(isinstance(d, ast.Name) and d.id == "staticmethod"
                         for d in meth.decorator_list)
            clsm = any(isinstance(d, ast.Name) and d.id == "classmethod"
                       for d in meth.decorator_list)
            if static:
                return self.call_func(meth, ci.mod, self._bindargs(meth, args, kw), self_cls=ci)
            if clsm:
                return self.call_func(meth, ci.mod, self._bindargs(
                    meth, [ClassRef(ci)] + args, kw), self_cls=ci)
            if n.args and isinstance(n.args[0], ast.Name) and n.args[0].id == "self" and "self" not in self.env \
                    and self.self_cls is not None and args and isinstance(args[0], Instance) and getattr(args[0], "label", None) == "self":
                # explicit base-class call on the object under evaluation: `Base.method(self, ...)`
                return self.call_func(meth, ci.mod, self._bindargs(meth, ["<self>"] + args[1:], kw), self_cls=self.self_cls, writeback=True)
            raise Unknown("instance method call")
        if isinstance(f, ClassRef):
            if f.ci.name in self.hooks:
                h_ = self.hooks[f.ci.name]
                if getattr(h_, "wants_kw", False):
                    return h_(args, kw)
                return h_(args)
            if self.is_enum(f.ci):
                raise Unknown("enum lookup by value %s" % f.ci.name)
            if getattr(self, "model_objects", False):
                # opt-in: the object's state is what its constructor leaves in self.* (folded from the source)
                c_i, m_i = self.repo.find_method(f.ci, "__init__")
                if m_i is not None:
                    try:
                        sub = self._mk(c_i.mod, {}, f.ci, self.depth + 1)
                        sub.model_objects = True
                        sub.ignore_calls = self.ignore_calls
                        for k_, v_ in sub._bindargs(m_i, ["<self>"] + list(args), kw):
                            if k_ != "self":
                                sub.env[k_] = v_
                        sub.run_block(m_i.body)
                        return Instance(f.ci, label="%s#%d" % (f.ci.name, id(sub)),
                                        attrs={k[5:]: v for k, v in sub.env.items() if isinstance(k, str) and k.startswith("self.") and k.count(".") == 1})
                    except Unknown:
                        pass
            return Instance(f.ci)           # an object of that class; nothing but its class is known
        if callable(f) and isinstance(n.func, ast.Attribute) and not kw:
            return f(args)                  # oracle stored in a dict-shaped object (`msg.desc_hdr()`)
        raise Unknown("call %s" % fname)

    def _method(self, recv, name, args, kw, n):
        if recv is None:
            raise Raised("AttributeError", n)
        if isinstance(recv, dict) and name in recv and callable(recv[name]):
            return recv[name](args)         # dict-shaped object with an oracle for one of its methods
        if isinstance(recv, ReCompiled):
            if name in ("match", "fullmatch", "search") and len(args) == 1 and isinstance(args[0], str) and not kw:
                m_ = getattr(recv.p, name)(args[0])
                return None if m_ is None else ReMatch(m_)
            raise Unknown("pattern method %s" % name)
        if isinstance(recv, ReMatch):
            if name == "groups" and not kw:
                return recv.m.groups(*args)
            if name == "group" and not kw:
                try:
                    return recv.m.group(*args)
                except IndexError:
                    raise Raised("IndexError", n)
            if name in ("start", "end", "span") and not kw:
                return getattr(recv.m, name)(*args)
            raise Unknown("match method %s" % name)
        if isinstance(recv, str) and name in _STR_METHODS:
            try:
                return getattr(recv, name)(*args, **kw)
            except (TypeError, ValueError) as e:
                raise Raised(type(e).__name__, n)
        if isinstance(recv, int) and not isinstance(recv, bool) and name == "bit_length" and not args and not kw:
            return recv.bit_length()
        if isinstance(recv, int) and name == "to_bytes":
            try:
                return recv.to_bytes(*args, **kw)
            except OverflowError:
                raise Raised("OverflowError", n)
        if isinstance(recv, StructObj) and not kw:
            try:
                if name == "pack":
                    return recv.s.pack(*args)
                if name == "unpack" and len(args) == 1:
                    return recv.s.unpack(bytes(args[0].tobytes() if isinstance(args[0], Arr) else args[0]))
                if name == "unpack_from" and len(args) in (1, 2):
                    return recv.s.unpack_from(bytes(args[0].tobytes() if isinstance(args[0], Arr) else args[0]), *(args[1:]))
            except struct.error:
                raise Raised("struct.error", n)
            except (TypeError, ValueError) as e_:
                raise Raised(type(e_).__name__, n)
        if isinstance(recv, Arr) and name == "tobytes" and not args and not kw:
            return recv.tobytes()
        if isinstance(recv, (bytes, bytearray)) and name == "tobytes" and not args and not kw:
            return bytes(recv)          # (a memoryview over it: modelled as the buffer itself)
        if isinstance(recv, (bytes, bytearray)) and name == "translate" and len(args) == 1 and not kw:
            tab = args[0]
            if isinstance(tab, Arr):
                tab = tab.tobytes()
            elif isinstance(tab, list) and len(tab) == 256 and all(isinstance(x, int) and -128 <= x <= 255 for x in tab):
                tab = bytes(x & 0xff for x in tab)
            try:
                return recv.translate(tab)
            except (ValueError, TypeError) as e:
                raise Raised(type(e).__name__, n)
        if isinstance(recv, (bytes, bytearray)) and name in ("hex", "translate"):
            return getattr(recv, name)(*args, **kw)
        if isinstance(recv, (list, tuple)) and name in ("index", "count"):
            try:
                return getattr(recv, name)(*args)
            except ValueError:
                raise Raised("ValueError", n)
        if isinstance(recv, list) and name in ("append", "insert", "extend", "copy", "pop", "remove", "clear", "reverse", "sort") and not kw:
            # a list held in the evaluation environment is a private value: in-place updates are modelled in place
            try:
                return getattr(recv, name)(*args)
            except (IndexError, ValueError, TypeError) as e:
                raise Raised(type(e).__name__, n)
        if isinstance(recv, bytearray) and name in ("append", "extend", "insert", "pop", "clear", "reverse", "copy") and not kw:
            # a bytearray held in the evaluation environment: in-place updates are modelled in place (like lists)
            try:
                a2 = [x.tobytes() if isinstance(x, Arr) else x for x in args]
                return getattr(recv, name)(*a2)
            except (IndexError, ValueError, TypeError) as e:
                raise Raised(type(e).__name__, n)
        if isinstance(recv, (bytes, bytearray)) and name == "decode":
            try:
                return recv.decode(*args, **kw)
            except UnicodeDecodeError:
                raise Raised("UnicodeDecodeError", n)
        if isinstance(recv, (bytes, bytearray)) and name in ("startswith", "endswith", "strip", "split", "find"):
            return getattr(recv, name)(*args, **kw)
        if isinstance(recv, dict) and name in ("setdefault", "update", "pop", "clear", "copy") and not kw:
            try:
                return getattr(recv, name)(*args)
            except (KeyError, TypeError) as e:
                raise Raised(type(e).__name__, n)
        if isinstance(recv, dict) and name in ("get", "keys", "values", "items") :
            r_ = getattr(recv, name)(*args)
            return list(r_) if name != "get" else r_
        raise Unknown("method %s" % name)

    def _bindargs(self, fd, args, kw):
        params = [a.arg for a in fd.args.args]
        env = []
        defaults = fd.args.defaults
        dmap = {}
        for p, d in zip(params[len(params) - len(defaults):], defaults):
            dmap[p] = d
        if len(args) > len(params):
            if fd.args.vararg is None:
                raise Unknown("too many args")
        if fd.args.vararg is not None:
            env.append((fd.args.vararg.arg, tuple(args[len(params):])))
        for i, p in enumerate(params):
            if i < len(args):
                env.append((p, args[i]))
            elif p in kw:
                env.append((p, kw[p]))
            elif p in dmap:
                env.append((p, self.ev(dmap[p])))
            else:
                raise Unknown("missing arg %s" % p)
        for a_, d_ in zip(fd.args.kwonlyargs, fd.args.kw_defaults):
            if a_.arg in kw:
                env.append((a_.arg, kw[a_.arg]))
            elif d_ is not None:
                env.append((a_.arg, self.ev(d_)))
            else:
                raise Unknown("missing keyword-only arg %s" % a_.arg)
        known = set(params) | {a_.arg for a_ in fd.args.kwonlyargs}
        extra = {k: v for k, v in kw.items() if k not in known}
        if fd.args.kwarg is not None:
            env.append((fd.args.kwarg.arg, extra))
        elif extra:
            raise Raised("TypeError")
        return env

    # -- pure function bodies ---------------------------------------------
    def call_func(self, fd, mod, bound, self_cls=None, writeback=False):
        if self.depth > 12:
            raise Unknown("depth")
        env = dict(bound)
        same_self = env.get("self") == "<self>"
        if same_self:
            del env["self"]
            # facts about the same object stay visible (e.g. 'self.ver')
            for k, v in self.env.items():
                if isinstance(k, str) and k.startswith("self."):
                    env.setdefault(k, v)
        sub = self._mk(mod, env, self_cls or self.self_cls, self.depth + 1)
        try:
            r = sub.run_block(fd.body)
        finally:
            if same_self and writeback:
                # attribute stores of the callee on the same object are visible to the caller
                for k, v in sub.env.items():
                    if isinstance(k, str) and k.startswith("self."):
                        self.env[k] = v
        if r is _FALL:
            return None
        return r[1]

    def run_block(self, stmts):
        for st in stmts:
            r = self.run_stmt(st)
            if r is not _FALL:
                return r
        return _FALL

    def run_stmt(self, st):
        if isinstance(st, ast.Expr):
            if isinstance(st.value, ast.Constant):
                return _FALL
            if isinstance(st.value, ast.Call) and ast.unparse(st.value.func).startswith(self.ignore_calls):
                return _FALL
            self.ev(st.value)
            return _FALL
        if isinstance(st, ast.Return):
            return ("ret", None if st.value is None else self.ev(st.value))
        if isinstance(st, ast.Assign):
            try:
                v = self.ev(st.value)
            except Unknown:
                if isinstance(st.value, ast.Attribute) and len(st.targets) == 1 and isinstance(st.targets[0], ast.Name):
                    v = Opaque(ast.unparse(st.value))       # alias of an unmodelled object
                else:
                    raise
            for t in st.targets:
                if isinstance(t, ast.Attribute) and isinstance(t.value, ast.Name) and isinstance(self.env.get(t.value.id), dict) \
                        and t.attr in self.env[t.value.id]:
                    self.env[t.value.id][t.attr] = v          # dict-shaped object: the attribute lives in the object
                elif isinstance(t, ast.Attribute):
                    self._bind(t, v, self.env)
                elif isinstance(t, ast.Subscript):
                    base = self.ev(t.value)
                    if not isinstance(base, (dict, list, bytearray)):
                        raise Unknown("item store into %s" % type(base).__name__)
                    try:
                        if isinstance(t.slice, ast.Slice):
                            lo_ = self.ev(t.slice.lower) if t.slice.lower is not None else None
                            hi_ = self.ev(t.slice.upper) if t.slice.upper is not None else None
                            sp_ = self.ev(t.slice.step) if t.slice.step is not None else None
                            base[slice(lo_, hi_, sp_)] = v.tobytes() if isinstance(v, Arr) and isinstance(base, bytearray) else v
                        else:
                            base[self.ev(t.slice)] = v
                    except (IndexError, TypeError, KeyError, ValueError) as e:
                        raise Raised(type(e).__name__, st)
                else:
                    self._bind(t, v, self.env)
            return _FALL
        if isinstance(st, ast.AugAssign):
            f = _BIN.get(type(st.op))
            key = ast.unparse(st.target)
            cur = self.ev(st.target)
            try:
                rhs = self.ev(st.value)
                if isinstance(st.op, ast.Add) and isinstance(cur, (list, bytearray)) and not isinstance(cur, Arr):
                    # `+=` on a list / bytearray extends the object in place: every alias (the caller's buffer handed to a
                    # helper) sees the new elements
                    cur += rhs.tobytes() if isinstance(rhs, Arr) and isinstance(cur, bytearray) else rhs
                    v = cur
                else:
                    v = f(cur, rhs)
            except TypeError:
                raise Raised("TypeError", st)
            except ZeroDivisionError:
                raise Raised("ZeroDivisionError", st)
            if isinstance(st.target, ast.Name):
                self.env[st.target.id] = v
            else:
                self.env[key] = v
            return _FALL
        if isinstance(st, ast.If):
            if self.ev(st.test):
                return self.run_block(st.body)
            return self.run_block(st.orelse)
        if isinstance(st, ast.For):
            it = self.ev(st.iter)
            if isinstance(it, ClassRef) and self.is_enum(it.ci):
                it = self.enum_members(it.ci)
            broke = False
            for v in it:
                self._bind(st.target, v, self.env)
                r = self.run_block(st.body)
                if r is _CONT:
                    continue
                if r is _BRK:
                    broke = True
                    break
                if r is not _FALL:
                    return r
            return _FALL if broke else self.run_block(st.orelse)
        if isinstance(st, ast.While):
            n_it = 0
            broke = False
            while self.ev(st.test):
                n_it += 1
                if n_it > 100000:
                    raise Unknown("loop bound")
                r = self.run_block(st.body)
                if r is _CONT:
                    continue
                if r is _BRK:
                    broke = True
                    break
                if r is not _FALL:
                    return r
            return _FALL if broke else self.run_block(st.orelse)
        if isinstance(st, ast.Continue):
            return _CONT
        if isinstance(st, ast.Break):
            return _BRK
        if isinstance(st, ast.With):
            # context managers of the toolkit are locks / files: the body runs once
            for it_ in st.items:
                if it_.optional_vars is not None:
                    raise Unknown("with ... as")
            return self.run_block(st.body)
        if isinstance(st, ast.Raise):
            cls = "Exception"
            if st.exc is None and getattr(self, "_handling", None) is not None:
                raise Raised(self._handling.cls, st)          # bare `raise` in a handler: the exception being handled
            if st.exc is not None:
                e = st.exc
                if isinstance(e, ast.Call):
                    e = e.func
                cls = ast.unparse(e)
            raise Raised(cls, st)
        if isinstance(st, ast.Pass):
            return _FALL
        if isinstance(st, ast.Delete):
            for t in st.targets:
                if isinstance(t, ast.Name) and t.id in self.env:
                    del self.env[t.id]
                elif isinstance(t, ast.Subscript):
                    base = self.ev(t.value)
                    try:
                        del base[self.ev(t.slice)]
                    except (KeyError, IndexError, TypeError) as e:
                        raise Raised(type(e).__name__, st)
            return _FALL
        if isinstance(st, ast.Assert):
            try:
                ok = self.ev(st.test)
            except Unknown:
                return _FALL
            if not ok:
                raise Raised("AssertionError", st)
            return _FALL
        if isinstance(st, ast.Try) and st.finalbody:
            inner = ast.Try(body=st.body, handlers=st.handlers, orelse=st.orelse, finalbody=[])
            pending = None
            try:
                r = self.run_stmt(inner) if (st.handlers or st.orelse) else self.run_block(st.body)
            except Raised as e:
                pending, r = e, _FALL
            rf = self.run_block(st.finalbody)
            if rf is not _FALL:
                return rf           # a return / break in `finally` replaces whatever was pending
            if pending is not None:
                raise pending
            return r
        if isinstance(st, ast.Try) and not st.finalbody:
            try:
                r = self.run_block(st.body)
            except Raised as e:
                for h in st.handlers:
                    names = []
                    if h.type is not None:
                        names = [ast.unparse(x) for x in (h.type.elts if isinstance(h.type, ast.Tuple) else [h.type])]
                    if h.type is None or e.cls in names or "Exception" in names or "BaseException" in names \
                            or any(e.cls.split(".")[-1] == x.split(".")[-1] for x in names) \
                            or (e.cls in ("UnicodeDecodeError", "UnicodeError") and "ValueError" in names) \
                            or (e.cls in ("IndexError", "KeyError") and "LookupError" in names):
                        if h.name:
                            self.env[h.name] = Opaque("exception %s" % e.cls)
                        prev_ = getattr(self, "_handling", None)
                        self._handling = e
                        try:
                            return self.run_block(h.body)
                        finally:
                            self._handling = prev_
                raise
            if r is not _FALL:
                return r
            return self.run_block(st.orelse)
        raise Unknown("stmt %s" % type(st).__name__)


_LIB_CONSTS = {"os.SEEK_SET": 0, "os.SEEK_CUR": 1, "os.SEEK_END": 2, "io.SEEK_SET": 0, "io.SEEK_CUR": 1, "io.SEEK_END": 2}
_FALL = object()
_BUILDING = object()
_CONT = object()
_BRK = object()

_STR_METHODS = {"strip", "lstrip", "rstrip", "split", "rsplit", "startswith", "endswith", "lower", "upper", "isdigit",
                "partition", "rpartition", "find", "rfind", "replace", "join", "encode", "isalnum", "isalpha",
                "zfill", "splitlines", "count", "index", "isspace", "isupper", "islower", "isascii", "isprintable", "isnumeric",
                "isdecimal", "isidentifier", "istitle", "title", "capitalize", "casefold", "swapcase", "center", "ljust", "rjust",
                "removeprefix", "removesuffix", "expandtabs"}


def _self_rooted(e):
    while isinstance(e, ast.Attribute):
        e = e.value
    return isinstance(e, ast.Name) and e.id == "self"


class ReCompiled(object):
    """a folded re.compile(<constant pattern>)"""

    def __init__(self, p):
        self.p = p


class ReMatch(object):
    """result of a folded re.match/fullmatch/search"""

    def __init__(self, m):
        self.m = m

    def __bool__(self):
        return True
    __nonzero__ = __bool__


def fold(repo, mod, node, env=None, self_cls=None):
    return Ev(repo, mod, env, self_cls).ev(node)


def try_fold(repo, mod, node, env=None, self_cls=None, default=None):
    try:
        return Ev(repo, mod, env, self_cls).ev(node)
    except (Unknown, Raised):
        return default
