# Accepted-set extraction for comparison-only validation code (C13.R1/R2).
#
# Abstract interpretation of `validate()` chains: every message field is a
# variable with a domain (ints | None | enum symbols); each branch condition
# is an atom over one field and folded constants; `raise` prunes the path.
# The result is the set of states at normal return (a union of boxes) plus a
# record of every raise (class, whether building its message can itself
# raise) and every ordering comparison executed on a possibly-None field.

import ast

from report import AnalysisError
from absdom import IntSet, Dom, INF, box_empty
from consteval import Ev, Unknown, Raised, EnumMember, ClassRef
from pyfront import canon

OTHER = "<other>"


class Extractor:
    def __init__(self, repo, ci, enum_ci, fields):
        """ci: concrete message class; enum_ci: the Modulation enum class;
        fields: dict field -> kind ('int' | 'bool' | 'enum' | 'obj')."""
        self.repo = repo
        self.ci = ci
        self.fields = dict(fields)
        for f, k in fields.items():
            if k == "obj":
                self.fields["len(%s)" % f] = "len"
        self.ev = Ev(repo, ci.mod, self_cls=ci)
        self.members = self.ev.enum_members(enum_ci)
        self.enum_name = enum_ci.name
        self.accepted = []
        self.raises = []       # (node, class text, state, qualname)
        self.none_cmp = []     # (node, var) ordering comparison on maybe-None
        self.fmt_none = []     # (node, var) %d formatting of maybe-None
        self.steps = 0

    # -- domains ----------------------------------------------------------
    def top(self, var):
        k = self.fields[var]
        if k == "int":
            return Dom(IntSet.top(), True)
        if k == "bool":
            return Dom(IntSet([(0, 1)]), False)
        if k == "enum":
            return Dom(IntSet(), True, frozenset([m.name for m in self.members] + [OTHER]))
        if k == "obj":      # burst: None or present (1)
            return Dom(IntSet([(1, 1)]), True)
        if k == "len":
            return Dom(IntSet([(0, INF)]), False)
        raise AnalysisError("unknown field kind")

    def tops(self):
        return {v: self.top(v) for v in self.fields}

    # -- variables ----------------------------------------------------------
    def var_of(self, e):
        """field variable denoted by expression, or None"""
        if isinstance(e, ast.Attribute) and isinstance(e.value, ast.Name) and e.value.id == "self" \
                and e.attr in self.fields:
            return e.attr
        if isinstance(e, ast.Call) and canon(e.func) == "len" and len(e.args) == 1:
            v = self.var_of(e.args[0])
            if v is not None and self.fields.get(v) == "obj":
                return "len(%s)" % v
        return None

    def mentions_field(self, e):
        return any(self.var_of(n) is not None for n in ast.walk(e))

    def const_of(self, e, st=None):
        if self.mentions_field(e):
            # a field is symbolic here: its class-level default must never be taken for its value
            raise AnalysisError("validate: expression depends on a validated field: %s" % canon(e))
        env = {}
        if st is not None:
            env = {k[1:]: v for k, v in st.items() if isinstance(k, str) and k.startswith("$") and not k.startswith("$alias:")}
        try:
            if env:
                return Ev(self.repo, self.ci.mod, env=env, self_cls=self.ci).ev(e)
            return self.ev.ev(e)
        except (Unknown, Raised):
            raise AnalysisError("validate: expression outside the vocabulary: %s" % canon(e))

    # -- refinement ---------------------------------------------------------
    def _subst(self, e, st):
        """locals that stand for an expression over the validated fields (`x = self.nope_ind`, `lens = (self.mod_type.bl,)`)
        are replaced by that expression (the binding is part of the path's state)"""
        al = {k[7:]: v for k, v in st.items() if isinstance(k, str) and k.startswith("$alias:")}
        if not al or not any(isinstance(n_, ast.Name) and n_.id in al for n_ in ast.walk(e)):
            return e
        import copy as _copy

        class Sub(ast.NodeTransformer):
            def visit_Name(self_, node):
                if isinstance(node.ctx, ast.Load) and node.id in al:
                    return _copy.deepcopy(al[node.id])
                return node
        return ast.fix_missing_locations(Sub().visit(_copy.deepcopy(e)))

    def refine(self, st, test, pol):
        """list of states (copies) where `test` evaluates to `pol`"""
        test = self._subst(test, st)
        if not self.mentions_field(test) and all(not isinstance(n_, ast.Call) or canon(n_.func) in ("len", "range", "bool", "int") for n_ in ast.walk(test)) \
                and any(isinstance(n_, ast.Name) and ("$" + n_.id) in st for n_ in ast.walk(test)):
            # a condition over constant locals only (`if nope_ind:` with nope_ind = False on this path)
            try:
                v_ = self.const_of(test, st)
            except AnalysisError:
                v_ = None
            else:
                return [dict(st)] if bool(v_) == pol else []
        # a condition that reads an attribute of an enum-valued field (`self.mod_type.bl`, `.tsc_sets`, `.coding`) is
        # decided per member: the field is fixed to each member still possible and the attribute becomes that
        # member's constant (None / a non-member would raise AttributeError here: recorded like a None comparison)
        ea = None
        for n_ in ast.walk(test):
            if isinstance(n_, ast.Attribute) and self.var_of(n_.value) is not None and self.fields[self.var_of(n_.value)] == "enum":
                ea = n_
                break
        if ea is not None and not (isinstance(test, ast.Compare) and len(test.ops) == 1 and self.var_of(test.left) is not None
                                   and str(self.var_of(test.left)).startswith("len(") and test.comparators[0] is ea):
            ev_ = self.var_of(ea.value)
            d_ = st[ev_]
            if d_.none or OTHER in d_.syms:
                self.none_cmp.append((test, ev_ + "." + ea.attr))
            out_ = []
            for m_ in self.members:
                if m_.name not in d_.syms:
                    continue

                class Sub(ast.NodeTransformer):
                    def visit_Attribute(self_, node):
                        if self.var_of(node.value) == ev_:
                            if node.attr not in m_.attrs:
                                raise AnalysisError("enum attr %s missing" % node.attr)
                            v_ = m_.attrs[node.attr]
                            if not isinstance(v_, (int, str, bool, type(None))):
                                raise AnalysisError("validate: enum attribute %s is not a scalar" % node.attr)
                            return ast.copy_location(ast.Constant(value=v_), node)
                        return self_.generic_visit(node)
                import copy as _copy
                sub_ = Sub().visit(_copy.deepcopy(test))
                ast.fix_missing_locations(sub_)
                for s_ in self._set(st, ev_, Dom(IntSet(), False, frozenset([m_.name]))):
                    out_ += self.refine(s_, sub_, pol)
            return out_
        if isinstance(test, ast.Constant):
            return [dict(st)] if bool(test.value) == pol else []
        if isinstance(test, ast.UnaryOp) and isinstance(test.op, ast.Not):
            return self.refine(st, test.operand, not pol)
        if isinstance(test, ast.BoolOp):
            conj = (isinstance(test.op, ast.And) and pol) or (isinstance(test.op, ast.Or) and not pol)
            if conj:
                states = [st]
                for v in test.values:
                    nxt = []
                    for s in states:
                        nxt += self.refine(s, v, pol)
                    states = nxt
                return states
            # disjunction: disjoint decomposition v1 | (!v1 & v2) | ...
            out = []
            prefix = [st]
            for v in test.values:
                for s in prefix:
                    out += self.refine(s, v, pol)
                nxt = []
                for s in prefix:
                    nxt += self.refine(s, v, not pol)
                prefix = nxt
            return out
        if isinstance(test, ast.Compare):
            if len(test.ops) > 1:
                # chained: a < b < c  ==  a < b and b < c
                parts = []
                left = test.left
                for op, c in zip(test.ops, test.comparators):
                    parts.append(ast.Compare(left=left, ops=[op], comparators=[c]))
                    left = c
                return self.refine(st, ast.BoolOp(op=ast.And(), values=parts), pol)
            return self.refine_cmp(st, test, pol)
        v = self.var_of(test)
        if v is not None and self.fields[v] == "bool":
            d = st[v]
            nd = d.with_(ints=d.ints.cmp_refine("!=" if pol else "==", 0))
            return self._set(st, v, nd)
        if v is not None and self.fields[v] in ("int", "len"):
            # truth value of an integer-or-None field: false for None and for 0, true for every other integer
            d = st[v]
            if pol:
                nd = d.with_(ints=d.ints.cmp_refine("!=", 0), none=False)
            else:
                nd = d.with_(ints=d.ints.cmp_refine("==", 0))
            return self._set(st, v, nd)
        raise AnalysisError("validate: condition outside the vocabulary: %s" % canon(test))

    def _set(self, st, var, dom):
        if dom.empty():
            return []
        s = dict(st)
        s[var] = dom
        return [s]

    def refine_cmp(self, st, test, pol):
        a, op, b = test.left, test.ops[0], test.comparators[0]
        if not self.mentions_field(test):
            # a comparison of constants (after an enum attribute was fixed, or of named constants): decided outright
            return [dict(st)] if bool(self.const_of(test, st)) == pol else []
        # type(self.X) is [not] Enum
        if isinstance(a, ast.Call) and canon(a.func) == "type" and len(a.args) == 1 \
                and isinstance(op, (ast.Is, ast.IsNot, ast.Eq, ast.NotEq)):
            v = self.var_of(a.args[0])
            if v is None or self.fields[v] != "enum" or canon(b) != self.enum_name:
                raise AnalysisError("validate: type() test unclassifiable: %s" % canon(test))
            want_member = pol == isinstance(op, (ast.Is, ast.Eq))
            d = st[v]
            names = frozenset(m.name for m in self.members)
            if want_member:
                nd = Dom(IntSet(), False, d.syms & names)
            else:
                nd = Dom(d.ints, d.none, d.syms - names)
            return self._set(st, v, nd)
        va, vb = self.var_of(a), self.var_of(b)
        # len(burst) <op> self.mod_type.bl   (var vs enum attribute)
        if va is not None and va.startswith("len(") and isinstance(b, ast.Attribute) \
                and self.var_of(b.value) is not None and self.fields[self.var_of(b.value)] == "enum":
            ev = self.var_of(b.value)
            out = []
            d = st[ev]
            if d.none or OTHER in d.syms:
                self.none_cmp.append((test, ev + "." + b.attr))
            for m in self.members:
                if m.name not in d.syms:
                    continue
                if b.attr not in m.attrs:
                    raise AnalysisError("enum attr %s missing" % b.attr)
                s1 = self._set(st, ev, Dom(IntSet(), False, frozenset([m.name])))
                for s in s1:
                    out += self._cmp_const(s, va, op, m.attrs[b.attr], pol, test)
            return out
        if va is not None and vb is None:
            return self._cmp_const(st, va, op, self.const_of(b, st), pol, test)
        if vb is not None and va is None:
            flip = {ast.Lt: ast.Gt, ast.Gt: ast.Lt, ast.LtE: ast.GtE, ast.GtE: ast.LtE}
            nop = flip.get(type(op))
            if nop is None and isinstance(op, (ast.Eq, ast.NotEq, ast.Is, ast.IsNot)):
                return self._cmp_const(st, vb, op, self.const_of(a, st), pol, test)
            if nop is None:
                raise AnalysisError("validate: comparison unclassifiable: %s" % canon(test))
            return self._cmp_const(st, vb, nop(), self.const_of(a, st), pol, test)
        r = self._opaque_pred(st, test, pol)
        if r is not None:
            return r
        raise AnalysisError("validate: comparison outside the vocabulary: %s" % canon(test))

    # -- a pure predicate of ONE integer field, decided on critical points ------------------------------------
    def _opaque_pred(self, st, test, pol):
        """`test` mentions exactly one integer-valued field variable V (possibly through calls of pure repository
        functions, e.g. `Modulation.pick_by_bl(len(self.burst)) is None`). If every callee uses its argument only
        as an operand of comparisons, the predicate is piecewise constant between the integer constants the code can
        compare with; it is folded on those critical points (c-1, c, c+1 for every integer constant of the modules
        involved, and the ends of V's current domain) and the satisfying set is assembled from the results."""
        occ = []

        def find(e, parent_is_var=False):
            v = self.var_of(e)
            if v is not None:
                occ.append((v, e))
                return
            for ch in ast.iter_child_nodes(e):
                find(ch)
        find(test)
        names = {v for v, _ in occ}
        if len(names) != 1:
            return None
        var = names.pop()
        kind = "len" if var.startswith("len(") else self.fields[var]
        if kind not in ("len", "int"):
            return None
        ids = {id(e) for _, e in occ}

        outer = self

        class Rep(ast.NodeTransformer):
            def visit(self_, node):
                if outer.var_of(node) == var:
                    return ast.Name(id="__x", ctx=ast.Load())
                return self_.generic_visit(node)
        from pyfront import clone
        t2 = Rep().visit(clone(test))
        ast.fix_missing_locations(t2)
        # callees: resolved, and their parameters flow only into comparisons / further such calls
        consts = set()
        mods = [self.ci.mod]
        for m, _n in list(self.ci.mod.from_imports.values()):
            if self.repo.has_mod(m):
                mods.append(self.repo.mod(m))
        for m in self.ci.mod.star_imports:
            if self.repo.has_mod(m):
                mods.append(self.repo.mod(m))
        for m in mods:
            for n in ast.walk(m.tree):
                if isinstance(n, ast.Constant) and isinstance(n.value, int) and not isinstance(n.value, bool):
                    consts.add(n.value)
        # ... and every integer a module-level constant or class attribute (enum member tuples) folds to
        def ints_of(v, out, depth=0):
            if isinstance(v, bool):
                return
            if isinstance(v, int):
                out.add(v)
            elif isinstance(v, (tuple, list)) and depth < 3:
                for x in v:
                    ints_of(x, out, depth + 1)
        for m in mods:
            evm = Ev(self.repo, m)
            exprs = list(m.consts.values())
            for ci_ in m.classes.values():
                exprs += list(ci_.attrs.values())
            for ex in exprs:
                try:
                    ints_of(evm.ev(ex), consts)
                except (Unknown, Raised, RecursionError):
                    pass
        for c in [n for n in ast.walk(t2) if isinstance(n, ast.Call)]:
            tgt = self._resolve_pure(c)
            if tgt is None:
                raise AnalysisError("validate: call in a condition does not resolve: %s" % canon(c))
            fd = tgt
            ps = [a.arg for a in fd.args.args if a.arg not in ("self", "cls")]
            for n in ast.walk(fd):
                if isinstance(n, ast.Compare):
                    for o_ in [n.left] + list(n.comparators):
                        try:
                            ints_of(Ev(self.repo, self.ci.mod).ev(o_), consts)
                        except (Unknown, Raised, RecursionError):
                            pass
                if isinstance(n, ast.Name) and n.id in ps and isinstance(n.ctx, ast.Load):
                    par = getattr(n, "_parent", None)
                    if not isinstance(par, ast.Compare):
                        raise AnalysisError("validate: %s() uses its argument outside comparisons: cannot fold `%s` on "
                                            "critical points" % (fd.name, canon(test)))
        base = var[4:-1] if var.startswith("len(") else var
        if var.startswith("len("):
            if st[base].none:
                self.none_cmp.append((test, var))
            d = st.get(var, Dom(IntSet([(0, INF)]), False))
        else:
            d = st[var]
            if d.none or d.syms:
                return None
        env0 = {k[1:]: v for k, v in st.items() if isinstance(k, str) and k.startswith("$") and not k.startswith("$alias:")}

        def at(x):
            env = dict(env0)
            env["__x"] = x
            try:
                return bool(Ev(self.repo, self.ci.mod, env=env, self_cls=self.ci).ev(t2))
            except (Unknown, Raised) as e:
                raise AnalysisError("validate: condition does not fold at %s=%r: %s (%s)" % (var, x, canon(test), e))
        sat = []
        for lo, hi in d.ints.iv:
            pts = sorted({p_ for c in consts for p_ in (c - 1, c, c + 1) if lo <= p_ <= hi} |
                         ({lo} if lo != -INF else set()) | ({hi} if hi != INF else set()))
            if not pts:
                pts = [0 if lo == -INF and hi == INF else (lo if lo != -INF else hi)]
            if len(pts) > 3000:
                raise AnalysisError("validate: too many critical points for `%s`" % canon(test))
            # segments: (-inf, pts[0]) , [p, p], (p, next p) ...
            res = {p_: at(p_) for p_ in pts}
            segs = []
            if lo == -INF:
                segs.append((-INF, pts[0] - 1, res[pts[0]]))     # beyond the smallest constant - 1 nothing changes
            elif pts[0] > lo:
                segs.append((lo, pts[0] - 1, res[pts[0]]))
            for i, p_ in enumerate(pts):
                segs.append((p_, p_, res[p_]))
                nxt = pts[i + 1] if i + 1 < len(pts) else None
                if nxt is not None and nxt > p_ + 1:
                    # the gap contains no constant +-1: p_ is some c+1 and nxt some c'-1 of one constant-free stretch
                    if res[p_] != res[nxt]:
                        raise AnalysisError("validate: `%s` changes between %d and %d without a constant there" % (
                            canon(test), p_, nxt))
                    segs.append((p_ + 1, nxt - 1, res[p_]))
            if hi == INF:
                segs.append((pts[-1] + 1, INF, res[pts[-1]]))
            elif pts[-1] < hi:
                segs.append((pts[-1] + 1, hi, res[pts[-1]]))
            sat += [(a, b) for a, b, r_ in segs if r_ == pol and a <= b]
        nd = Dom(IntSet(sat), False, frozenset())
        if var.startswith("len("):
            return self._set(st, var, nd)
        return self._set(st, var, nd)

    def _resolve_pure(self, call):
        """FunctionDef of a repository function / classmethod called in a condition, or None"""
        f = call.func
        if isinstance(f, ast.Name):
            if f.id in ("len", "int", "abs", "bool"):
                return ast.parse("def %s(): pass" % f.id).body[0]
            r = self.repo.lookup(self.ci.mod, f.id)
            if r is not None and r[0] == "func":
                return r[1]
            return None
        if isinstance(f, ast.Attribute) and isinstance(f.value, ast.Name):
            if f.value.id in ("self", "cls"):
                c2, m2 = self.repo.find_method(self.ci, f.attr)
                return m2
            ci2 = self.repo.cls(self.ci.mod, f.value.id)
            if ci2 is not None:
                c2, m2 = self.repo.find_method(ci2, f.attr)
                return m2
        return None

    def _cmp_const(self, st, var, op, c, pol, node):
        base = var[4:-1] if var.startswith("len(") else var
        kind = "len" if var.startswith("len(") else self.fields[var]
        if var.startswith("len("):
            # len() of a possibly-None burst raises TypeError
            if st[base].none:
                self.none_cmp.append((node, var))
            d = st.get(var, Dom(IntSet([(0, INF)]), False))
        else:
            d = st[var]
        opn = type(op)
        if opn in (ast.Is, ast.IsNot, ast.Eq, ast.NotEq) and c is None:
            isnone = pol == (opn in (ast.Is, ast.Eq))
            nd = Dom(IntSet(), True if d.none else False, frozenset()) if isnone else d.with_(none=False)
            if isnone and not d.none:
                return []
            return self._set(st, var, nd)
        if isinstance(c, EnumMember):
            if opn not in (ast.Is, ast.IsNot, ast.Eq, ast.NotEq):
                raise AnalysisError("ordering on enum")
            eq = pol == (opn in (ast.Is, ast.Eq))
            if eq:
                nd = Dom(IntSet(), False, d.syms & {c.name})
            else:
                nd = d.with_(syms=d.syms - {c.name})
            return self._set(st, var, nd)
        if opn in (ast.In, ast.NotIn):
            try:
                vals = list(c)
            except TypeError:
                raise AnalysisError("validate: container does not fold: %s" % canon(node))
            if vals and all(isinstance(x, EnumMember) for x in vals):
                names = frozenset(x.name for x in vals)
                member = pol == (opn is ast.In)
                if member:
                    nd = Dom(IntSet(), False, d.syms & names)
                else:
                    nd = d.with_(syms=d.syms - names)
                return self._set(st, var, nd)
            if not all(isinstance(x, int) for x in vals):
                raise AnalysisError("validate: non-integer container")
            inset = IntSet.of(vals)
            member = pol == (opn is ast.In)
            if member:
                nd = Dom(d.ints.meet(inset), False, frozenset())
            else:
                nd = d.with_(ints=d.ints.minus(inset))
            return self._set(st, var, nd)
        if isinstance(c, bool):
            c = int(c)
        if not isinstance(c, int):
            raise AnalysisError("validate: constant is not an integer: %s" % canon(node))
        sym = {ast.Lt: "<", ast.LtE: "<=", ast.Gt: ">", ast.GtE: ">=", ast.Eq: "==", ast.NotEq: "!="}.get(opn)
        if sym is None:
            raise AnalysisError("validate: operator unclassifiable: %s" % canon(node))
        neg = {"<": ">=", "<=": ">", ">": "<=", ">=": "<", "==": "!=", "!=": "=="}
        if sym in ("<", "<=", ">", ">="):
            if d.none or d.syms:
                # ordering comparison against a value that may be None -> TypeError
                self.none_cmp.append((node, var))
            nd = Dom(d.ints.cmp_refine(sym if pol else neg[sym], c), False, frozenset())
            return self._set(st, var, nd)
        # == / != : None compares unequal without raising
        if (sym == "==") == pol:
            nd = Dom(d.ints.cmp_refine("==", c), False, frozenset())
        else:
            nd = d.with_(ints=d.ints.cmp_refine("!=", c))
        return self._set(st, var, nd)

    # -- walking ------------------------------------------------------------
    def block(self, stmts, states, owner, qn, depth):
        """returns states that fall through; returns are collected by
        caller via the ('ret') marker stored in self._rets stack."""
        for st in stmts:
            if not states:
                return []
            states = self.stmt(st, states, owner, qn, depth)
        return states

    def stmt(self, st, states, owner, qn, depth):
        self.steps += 1
        if self.steps > 200000:
            raise AnalysisError("validate: state explosion")
        if isinstance(st, ast.Expr) and isinstance(st.value, ast.Constant):
            return states
        if isinstance(st, ast.Pass):
            return states
        if isinstance(st, ast.If):
            out = []
            for s in states:
                t = self.refine(s, st.test, True)
                f = self.refine(s, st.test, False)
                out += self.block(st.body, t, owner, qn, depth)
                out += self.block(st.orelse, f, owner, qn, depth)
            return out
        if isinstance(st, ast.Assert):
            out = []
            for s in states:
                try:
                    t = self.refine(s, st.test, True)
                    f = self.refine(s, st.test, False)
                except AnalysisError:
                    # an assertion about something outside the field vocabulary: no constraint on fields
                    t, f = [s], []
                for bad in f:
                    self.raises.append((st, "AssertionError", bad, qn))
                out += t
            return out
        if isinstance(st, ast.Raise):
            cls = "Exception"
            msgexpr = None
            if st.exc is not None:
                e = st.exc
                if isinstance(e, ast.Call):
                    cls = canon(e.func)
                    msgexpr = e.args[0] if e.args else None
                else:
                    cls = canon(e)
            for s in states:
                self.raises.append((st, cls, s, qn))
                if msgexpr is not None:
                    self.check_fmt(msgexpr, s, st)
            return []
        if isinstance(st, ast.Return):
            if st.value is not None and not (isinstance(st.value, ast.Constant) and st.value.value is None):
                raise AnalysisError("validate: returns a value: %s" % canon(st))
            self._ret[-1].extend(states)
            return []
        if isinstance(st, ast.Assign) and len(st.targets) == 1 and isinstance(st.targets[0], ast.Name) \
                and not isinstance(st.value, ast.IfExp) and any(self.mentions_field(self._subst(st.value, s_)) for s_ in states):
            # local standing for an expression over the fields: kept symbolically, per path
            out_ = []
            for s_ in states:
                s2 = dict(s_)
                s2.pop("$" + st.targets[0].id, None)
                s2["$alias:" + st.targets[0].id] = self._subst(st.value, s_)
                out_.append(s2)
            return out_
        if isinstance(st, ast.Assign) and len(st.targets) == 1 and isinstance(st.targets[0], ast.Name) \
                and self.var_of(st.value) is None:
            # local holding a folded constant (e.g. `allowed = range(0, 4)`), path-sensitive; a conditional
            # expression over the fields splits the states (`range(0, 4) if self.mod_type is X else range(0, 2)`)
            def bind(states_, value):
                if isinstance(value, ast.IfExp) and self.mentions_field(value.test):
                    out_ = []
                    for s in states_:
                        out_ += bind(self.refine(s, value.test, True), value.body)
                        out_ += bind(self.refine(s, value.test, False), value.orelse)
                    return out_
                out_ = []
                for s in states_:
                    v = self.const_of(value, s)
                    s2 = dict(s)
                    s2["$" + st.targets[0].id] = v
                    s2.pop("$alias:" + st.targets[0].id, None)
                    out_.append(s2)
                return out_
            return bind(states, st.value)
        if isinstance(st, ast.Assign) and len(st.targets) == 1 and isinstance(st.targets[0], ast.Attribute) \
                and isinstance(st.targets[0].value, ast.Name) and st.targets[0].value.id == "self" \
                and st.targets[0].attr not in self.fields and isinstance(st.value, ast.Constant):
            # bookkeeping attribute (not a validated field): no influence on what is accepted
            return states
        if isinstance(st, ast.Expr) and isinstance(st.value, ast.Call) and \
                canon(st.value.func).startswith(("log.", "logging.", "print")):
            return states
        if isinstance(st, ast.Expr) and isinstance(st.value, ast.Call):
            call = st.value
            tgt = self.resolve_call(call, owner)
            if tgt is None:
                raise AnalysisError("validate: call outside the vocabulary: %s" % canon(call))
            c2, m2 = tgt
            if depth > 6:
                raise AnalysisError("validate: call depth")
            return self.call(m2, c2, states, depth + 1)
        if isinstance(st, ast.Try) and not st.finalbody and not st.orelse and len(st.body) == 1 and st.handlers \
                and isinstance(st.body[0], ast.Expr) and isinstance(st.body[0].value, ast.Call) \
                and canon(st.body[0].value.func) in ("operator.index", "index", "int") and len(st.body[0].value.args) == 1 \
                and self.var_of(st.body[0].value.args[0]) is not None \
                and all(h.type is not None and "TypeError" in [canon(x) for x in (h.type.elts if isinstance(h.type, ast.Tuple) else [h.type])]
                        and h.body and isinstance(h.body[-1], ast.Raise) for h in st.handlers):
            # type test `try: operator.index(self.X) except TypeError: raise ...`: integers pass, None and symbols
            # (objects that are not integers) are refused
            v = self.var_of(st.body[0].value.args[0])
            out_ = []
            for s_ in states:
                d = s_[v]
                out_ += self._set(s_, v, d.with_(none=False, syms=frozenset()))
            return out_
        raise AnalysisError("validate: statement outside the vocabulary: %s" % canon(st)[:70])

    _ret = None

    def call(self, m, c, states, depth):
        if self._ret is None:
            self._ret = []
        self._ret.append([])
        out = self.block(m.body, states, c, "%s.%s" % (c.name, m.name), depth)
        out = out + self._ret.pop()
        return out

    def run(self, meth_name="validate"):
        c, m = self.repo.find_method(self.ci, meth_name)
        if m is None:
            raise AnalysisError("no %s in %s" % (meth_name, self.ci.name))
        self._ret = []
        acc = self.call(m, c, [self.tops()], 0)
        self.accepted = [{k: v for k, v in s.items() if not (isinstance(k, str) and k.startswith("$"))} for s in acc]
        return self.accepted

    def resolve_call(self, call, owner):
        f = call.func
        if isinstance(f, ast.Attribute) and isinstance(f.value, ast.Name):
            if f.value.id == "self" and not call.args:
                c, m = self.repo.find_method(self.ci, f.attr)
                return (c, m) if m is not None else None
            # explicit base call: Base.meth(self)
            if len(call.args) == 1 and canon(call.args[0]) == "self":
                bc = self.repo.cls(owner.mod, f.value.id)
                if bc is not None:
                    c, m = self.repo.find_method(bc, f.attr)
                    return (c, m) if m is not None else None
        if isinstance(f, ast.Attribute) and canon(f.value) == "super()" and not call.args:
            mro = self.repo.mro(owner)
            for bc in mro[1:]:
                if f.attr in bc.methods:
                    return bc, bc.methods[f.attr]
        return None

    def check_fmt(self, e, st, node):
        """`"...%d" % operand`: an integer conversion of a possibly-None
        field raises TypeError while building the rejection message."""
        if not (isinstance(e, ast.BinOp) and isinstance(e.op, ast.Mod) and
                isinstance(e.left, ast.Constant) and isinstance(e.left.value, str)):
            return
        import re
        convs = re.findall(r"%[-#0 +]*\d*(?:\.\d+)?([diouxXeEfFgGcrsa%])", e.left.value)
        convs = [c for c in convs if c != "%"]
        ops = list(e.right.elts) if isinstance(e.right, ast.Tuple) else [e.right]
        for cv, op in zip(convs, ops):
            if cv in "srac":
                continue
            for sub in ast.walk(op):
                v = self.var_of(sub)
                if v is None:
                    continue
                base = v[4:-1] if v.startswith("len(") else v
                if st[base].none or st[base].syms:
                    self.fmt_none.append((node, v, cv))
