# Accepted-set extraction for comparison-only validation code (C13.R1/R2).
#
# Abstract interpretation of `validate()` chains: every message field is a
# variable with a domain (ints | None | enum symbols); each branch condition
# is an atom over one field and folded constants; `raise` prunes the path.
# The result is the set of states at normal return (a union of boxes) plus a
# record of every raise (class, whether building its message can itself
# raise) and every ordering comparison executed on a possibly-None field.

import ast

from report import AnalysisError
from absdom import IntSet, Dom, INF, box_empty
from consteval import Ev, Unknown, Raised, EnumMember, ClassRef
from pyfront import canon

OTHER = "<other>"


class Extractor:
    def __init__(self, repo, ci, enum_ci, fields):
        """ci: concrete message class; enum_ci: the Modulation enum class;
        fields: dict field -> kind ('int' | 'bool' | 'enum' | 'obj')."""
        self.repo = repo
        self.ci = ci
        self.fields = dict(fields)
        for f, k in fields.items():
            if k == "obj":
                self.fields["len(%s)" % f] = "len"
        self.ev = Ev(repo, ci.mod, self_cls=ci)
        self.members = self.ev.enum_members(enum_ci)
        self.enum_name = enum_ci.name
        self.accepted = []
        self.raises = []       # (node, class text, state, qualname)
        self.none_cmp = []     # (node, var) ordering comparison on maybe-None
        self.fmt_none = []     # (node, var) %d formatting of maybe-None
        self.steps = 0

    # -- domains ----------------------------------------------------------
    def top(self, var):
        k = self.fields[var]
        if k == "int":
            return Dom(IntSet.top(), True)
        if k == "bool":
            return Dom(IntSet([(0, 1)]), False)
        if k == "enum":
            return Dom(IntSet(), True, frozenset([m.name for m in self.members] + [OTHER]))
        if k == "obj":      # burst: None or present (1)
            return Dom(IntSet([(1, 1)]), True)
        if k == "len":
            return Dom(IntSet([(0, INF)]), False)
        raise AnalysisError("unknown field kind")

    def tops(self):
        return {v: self.top(v) for v in self.fields}

    # -- variables ----------------------------------------------------------
    def var_of(self, e):
        """field variable denoted by expression, or None"""
        if isinstance(e, ast.Attribute) and isinstance(e.value, ast.Name) and e.value.id == "self" \
                and e.attr in self.fields:
            return e.attr
        if isinstance(e, ast.Call) and canon(e.func) == "len" and len(e.args) == 1:
            v = self.var_of(e.args[0])
            if v is not None and self.fields.get(v) == "obj":
                return "len(%s)" % v
        return None

    def const_of(self, e, st=None):
        env = {}
        if st is not None:
            env = {k[1:]: v for k, v in st.items() if isinstance(k, str) and k.startswith("$")}
        try:
            if env:
                return Ev(self.repo, self.ci.mod, env=env, self_cls=self.ci).ev(e)
            return self.ev.ev(e)
        except (Unknown, Raised):
            raise AnalysisError("validate: expression outside the vocabulary: %s" % canon(e))

    # -- refinement ---------------------------------------------------------
    def refine(self, st, test, pol):
        """list of states (copies) where `test` evaluates to `pol`"""
        if isinstance(test, ast.UnaryOp) and isinstance(test.op, ast.Not):
            return self.refine(st, test.operand, not pol)
        if isinstance(test, ast.BoolOp):
            conj = (isinstance(test.op, ast.And) and pol) or (isinstance(test.op, ast.Or) and not pol)
            if conj:
                states = [st]
                for v in test.values:
                    nxt = []
                    for s in states:
                        nxt += self.refine(s, v, pol)
                    states = nxt
                return states
            # disjunction: disjoint decomposition v1 | (!v1 & v2) | ...
            out = []
            prefix = [st]
            for v in test.values:
                for s in prefix:
                    out += self.refine(s, v, pol)
                nxt = []
                for s in prefix:
                    nxt += self.refine(s, v, not pol)
                prefix = nxt
            return out
        if isinstance(test, ast.Compare):
            if len(test.ops) > 1:
                # chained: a < b < c  ==  a < b and b < c
                parts = []
                left = test.left
                for op, c in zip(test.ops, test.comparators):
                    parts.append(ast.Compare(left=left, ops=[op], comparators=[c]))
                    left = c
                return self.refine(st, ast.BoolOp(op=ast.And(), values=parts), pol)
            return self.refine_cmp(st, test, pol)
        v = self.var_of(test)
        if v is not None and self.fields[v] == "bool":
            d = st[v]
            nd = d.with_(ints=d.ints.cmp_refine("!=" if pol else "==", 0))
            return self._set(st, v, nd)
        raise AnalysisError("validate: condition outside the vocabulary: %s" % canon(test))

    def _set(self, st, var, dom):
        if dom.empty():
            return []
        s = dict(st)
        s[var] = dom
        return [s]

    def refine_cmp(self, st, test, pol):
        a, op, b = test.left, test.ops[0], test.comparators[0]
        # type(self.X) is [not] Enum
        if isinstance(a, ast.Call) and canon(a.func) == "type" and len(a.args) == 1 \
                and isinstance(op, (ast.Is, ast.IsNot, ast.Eq, ast.NotEq)):
            v = self.var_of(a.args[0])
            if v is None or self.fields[v] != "enum" or canon(b) != self.enum_name:
                raise AnalysisError("validate: type() test unclassifiable: %s" % canon(test))
            want_member = pol == isinstance(op, (ast.Is, ast.Eq))
            d = st[v]
            names = frozenset(m.name for m in self.members)
            if want_member:
                nd = Dom(IntSet(), False, d.syms & names)
            else:
                nd = Dom(d.ints, d.none, d.syms - names)
            return self._set(st, v, nd)
        va, vb = self.var_of(a), self.var_of(b)
        # len(burst) <op> self.mod_type.bl   (var vs enum attribute)
        if va is not None and va.startswith("len(") and isinstance(b, ast.Attribute) \
                and self.var_of(b.value) is not None and self.fields[self.var_of(b.value)] == "enum":
            ev = self.var_of(b.value)
            out = []
            d = st[ev]
            if d.none or OTHER in d.syms:
                self.none_cmp.append((test, ev + "." + b.attr))
            for m in self.members:
                if m.name not in d.syms:
                    continue
                if b.attr not in m.attrs:
                    raise AnalysisError("enum attr %s missing" % b.attr)
                s1 = self._set(st, ev, Dom(IntSet(), False, frozenset([m.name])))
                for s in s1:
                    out += self._cmp_const(s, va, op, m.attrs[b.attr], pol, test)
            return out
        if va is not None and vb is None:
            return self._cmp_const(st, va, op, self.const_of(b, st), pol, test)
        if vb is not None and va is None:
            flip = {ast.Lt: ast.Gt, ast.Gt: ast.Lt, ast.LtE: ast.GtE, ast.GtE: ast.LtE}
            nop = flip.get(type(op))
            if nop is None and isinstance(op, (ast.Eq, ast.NotEq, ast.Is, ast.IsNot)):
                return self._cmp_const(st, vb, op, self.const_of(a, st), pol, test)
            if nop is None:
                raise AnalysisError("validate: comparison unclassifiable: %s" % canon(test))
            return self._cmp_const(st, vb, nop(), self.const_of(a, st), pol, test)
        raise AnalysisError("validate: comparison outside the vocabulary: %s" % canon(test))

    def _cmp_const(self, st, var, op, c, pol, node):
        base = var[4:-1] if var.startswith("len(") else var
        kind = "len" if var.startswith("len(") else self.fields[var]
        if var.startswith("len("):
            # len() of a possibly-None burst raises TypeError
            if st[base].none:
                self.none_cmp.append((node, var))
            d = st.get(var, Dom(IntSet([(0, INF)]), False))
        else:
            d = st[var]
        opn = type(op)
        if opn in (ast.Is, ast.IsNot, ast.Eq, ast.NotEq) and c is None:
            isnone = pol == (opn in (ast.Is, ast.Eq))
            nd = Dom(IntSet(), True if d.none else False, frozenset()) if isnone else d.with_(none=False)
            if isnone and not d.none:
                return []
            return self._set(st, var, nd)
        if isinstance(c, EnumMember):
            if opn not in (ast.Is, ast.IsNot, ast.Eq, ast.NotEq):
                raise AnalysisError("ordering on enum")
            eq = pol == (opn in (ast.Is, ast.Eq))
            if eq:
                nd = Dom(IntSet(), False, d.syms & {c.name})
            else:
                nd = d.with_(syms=d.syms - {c.name})
            return self._set(st, var, nd)
        if opn in (ast.In, ast.NotIn):
            try:
                vals = list(c)
            except TypeError:
                raise AnalysisError("validate: container does not fold: %s" % canon(node))
            if vals and all(isinstance(x, EnumMember) for x in vals):
                names = frozenset(x.name for x in vals)
                member = pol == (opn is ast.In)
                if member:
                    nd = Dom(IntSet(), False, d.syms & names)
                else:
                    nd = d.with_(syms=d.syms - names)
                return self._set(st, var, nd)
            if not all(isinstance(x, int) for x in vals):
                raise AnalysisError("validate: non-integer container")
            inset = IntSet.of(vals)
            member = pol == (opn is ast.In)
            if member:
                nd = Dom(d.ints.meet(inset), False, frozenset())
            else:
                nd = d.with_(ints=d.ints.minus(inset))
            return self._set(st, var, nd)
        if isinstance(c, bool):
            c = int(c)
        if not isinstance(c, int):
            raise AnalysisError("validate: constant is not an integer: %s" % canon(node))
        sym = {ast.Lt: "<", ast.LtE: "<=", ast.Gt: ">", ast.GtE: ">=", ast.Eq: "==", ast.NotEq: "!="}.get(opn)
        if sym is None:
            raise AnalysisError("validate: operator unclassifiable: %s" % canon(node))
        neg = {"<": ">=", "<=": ">", ">": "<=", ">=": "<", "==": "!=", "!=": "=="}
        if sym in ("<", "<=", ">", ">="):
            if d.none or d.syms:
                # ordering comparison against a value that may be None -> TypeError
                self.none_cmp.append((node, var))
            nd = Dom(d.ints.cmp_refine(sym if pol else neg[sym], c), False, frozenset())
            return self._set(st, var, nd)
        # == / != : None compares unequal without raising
        if (sym == "==") == pol:
            nd = Dom(d.ints.cmp_refine("==", c), False, frozenset())
        else:
            nd = d.with_(ints=d.ints.cmp_refine("!=", c))
        return self._set(st, var, nd)

    # -- walking ------------------------------------------------------------
    def block(self, stmts, states, owner, qn, depth):
        """returns states that fall through; returns are collected by
        caller via the ('ret') marker stored in self._rets stack."""
        for st in stmts:
            if not states:
                return []
            states = self.stmt(st, states, owner, qn, depth)
        return states

    def stmt(self, st, states, owner, qn, depth):
        self.steps += 1
        if self.steps > 200000:
            raise AnalysisError("validate: state explosion")
        if isinstance(st, ast.Expr) and isinstance(st.value, ast.Constant):
            return states
        if isinstance(st, ast.Pass):
            return states
        if isinstance(st, ast.If):
            out = []
            for s in states:
                t = self.refine(s, st.test, True)
                f = self.refine(s, st.test, False)
                out += self.block(st.body, t, owner, qn, depth)
                out += self.block(st.orelse, f, owner, qn, depth)
            return out
        if isinstance(st, ast.Assert):
            out = []
            for s in states:
                try:
                    t = self.refine(s, st.test, True)
                    f = self.refine(s, st.test, False)
                except AnalysisError:
                    # an assertion about something outside the field vocabulary: no constraint on fields
                    t, f = [s], []
                for bad in f:
                    self.raises.append((st, "AssertionError", bad, qn))
                out += t
            return out
        if isinstance(st, ast.Raise):
            cls = "Exception"
            msgexpr = None
            if st.exc is not None:
                e = st.exc
                if isinstance(e, ast.Call):
                    cls = canon(e.func)
                    msgexpr = e.args[0] if e.args else None
                else:
                    cls = canon(e)
            for s in states:
                self.raises.append((st, cls, s, qn))
                if msgexpr is not None:
                    self.check_fmt(msgexpr, s, st)
            return []
        if isinstance(st, ast.Return):
            if st.value is not None and not (isinstance(st.value, ast.Constant) and st.value.value is None):
                raise AnalysisError("validate: returns a value: %s" % canon(st))
            self._ret[-1].extend(states)
            return []
        if isinstance(st, ast.Assign) and len(st.targets) == 1 and isinstance(st.targets[0], ast.Name) \
                and self.var_of(st.value) is None:
            # local holding a folded constant (e.g. `allowed = range(0, 4)`), path-sensitive
            out = []
            for s in states:
                v = self.const_of(st.value, s)
                s2 = dict(s)
                s2["$" + st.targets[0].id] = v
                out.append(s2)
            return out
        if isinstance(st, ast.Expr) and isinstance(st.value, ast.Call) and \
                canon(st.value.func).startswith(("log.", "logging.", "print")):
            return states
        if isinstance(st, ast.Expr) and isinstance(st.value, ast.Call):
            call = st.value
            tgt = self.resolve_call(call, owner)
            if tgt is None:
                raise AnalysisError("validate: call outside the vocabulary: %s" % canon(call))
            c2, m2 = tgt
            if depth > 6:
                raise AnalysisError("validate: call depth")
            return self.call(m2, c2, states, depth + 1)
        raise AnalysisError("validate: statement outside the vocabulary: %s" % canon(st)[:70])

    _ret = None

    def call(self, m, c, states, depth):
        if self._ret is None:
            self._ret = []
        self._ret.append([])
        out = self.block(m.body, states, c, "%s.%s" % (c.name, m.name), depth)
        out = out + self._ret.pop()
        return out

    def run(self, meth_name="validate"):
        c, m = self.repo.find_method(self.ci, meth_name)
        if m is None:
            raise AnalysisError("no %s in %s" % (meth_name, self.ci.name))
        self._ret = []
        acc = self.call(m, c, [self.tops()], 0)
        self.accepted = [{k: v for k, v in s.items() if not (isinstance(k, str) and k.startswith("$"))} for s in acc]
        return self.accepted

    def resolve_call(self, call, owner):
        f = call.func
        if isinstance(f, ast.Attribute) and isinstance(f.value, ast.Name):
            if f.value.id == "self" and not call.args:
                c, m = self.repo.find_method(self.ci, f.attr)
                return (c, m) if m is not None else None
            # explicit base call: Base.meth(self)
            if len(call.args) == 1 and canon(call.args[0]) == "self":
                bc = self.repo.cls(owner.mod, f.value.id)
                if bc is not None:
                    c, m = self.repo.find_method(bc, f.attr)
                    return (c, m) if m is not None else None
        if isinstance(f, ast.Attribute) and canon(f.value) == "super()" and not call.args:
            mro = self.repo.mro(owner)
            for bc in mro[1:]:
                if f.attr in bc.methods:
                    return bc, bc.methods[f.attr]
        return None

    def check_fmt(self, e, st, node):
        """`"...%d" % operand`: an integer conversion of a possibly-None
        field raises TypeError while building the rejection message."""
        if not (isinstance(e, ast.BinOp) and isinstance(e.op, ast.Mod) and
                isinstance(e.left, ast.Constant) and isinstance(e.left.value, str)):
            return
        import re
        convs = re.findall(r"%[-#0 +]*\d*(?:\.\d+)?([diouxXeEfFgGcrsa%])", e.left.value)
        convs = [c for c in convs if c != "%"]
        ops = list(e.right.elts) if isinstance(e.right, ast.Tuple) else [e.right]
        for cv, op in zip(convs, ops):
            if cv in "srac":
                continue
            for sub in ast.walk(op):
                v = self.var_of(sub)
                if v is None:
                    continue
                base = v[4:-1] if v.startswith("len(") else v
                if st[base].none or st[base].syms:
                    self.fmt_none.append((node, v, cv))
