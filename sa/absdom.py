# E5 -- small abstract domains: integer interval sets, field domains
# (ints + None + symbols), boxes (products) and exact box-set algebra
# (subtraction, cover test) used to compare an extracted accepted set with a
# reference range table.

INF = float("inf")


class IntSet:
    """Finite union of closed integer intervals, bounds may be +-inf."""
    __slots__ = ("iv",)

    def __init__(self, iv=()):
        self.iv = self._norm(list(iv))

    @staticmethod
    def _norm(iv):
        iv = sorted((lo, hi) for lo, hi in iv if lo <= hi)
        out = []
        for lo, hi in iv:
            if out and lo <= out[-1][1] + 1:
                out[-1] = (out[-1][0], max(out[-1][1], hi))
            else:
                out.append((lo, hi))
        return tuple(out)

    @classmethod
    def top(cls):
        return cls([(-INF, INF)])

    @classmethod
    def of(cls, vals):
        return cls([(v, v) for v in vals])

    def empty(self):
        return not self.iv

    def meet(self, o):
        out = []
        for a in self.iv:
            for b in o.iv:
                lo, hi = max(a[0], b[0]), min(a[1], b[1])
                if lo <= hi:
                    out.append((lo, hi))
        return IntSet(out)

    def join(self, o):
        return IntSet(self.iv + o.iv)

    def compl(self):
        out = []
        cur = -INF
        for lo, hi in self.iv:
            if lo > cur:
                out.append((cur, lo - 1))
            cur = hi + 1
        if cur != INF:
            out.append((cur, INF))
        return IntSet([(lo, hi) for lo, hi in out if lo <= hi])

    def minus(self, o):
        return self.meet(o.compl())

    def __eq__(self, o):
        return isinstance(o, IntSet) and self.iv == o.iv

    def __hash__(self):
        return hash(self.iv)

    def subset(self, o):
        return self.minus(o).empty()

    def __repr__(self):
        if not self.iv:
            return "{}"
        parts = []
        for lo, hi in self.iv:
            if lo == hi:
                parts.append("%d" % lo)
            else:
                parts.append("%s..%s" % ("-inf" if lo == -INF else int(lo),
                                         "+inf" if hi == INF else int(hi)))
        return "{" + ", ".join(parts) + "}"

    def cmp_refine(self, op, c):
        """subset where x <op> c holds"""
        if op == "<":
            return self.meet(IntSet([(-INF, c - 1)]))
        if op == "<=":
            return self.meet(IntSet([(-INF, c)]))
        if op == ">":
            return self.meet(IntSet([(c + 1, INF)]))
        if op == ">=":
            return self.meet(IntSet([(c, INF)]))
        if op == "==":
            return self.meet(IntSet([(c, c)]))
        if op == "!=":
            return self.minus(IntSet([(c, c)]))
        raise ValueError(op)


class Dom:
    """Domain of one field: integer part, None-ness, symbol part."""
    __slots__ = ("ints", "none", "syms")

    def __init__(self, ints=None, none=False, syms=frozenset()):
        self.ints = ints if ints is not None else IntSet()
        self.none = none
        self.syms = frozenset(syms)

    def empty(self):
        return self.ints.empty() and not self.none and not self.syms

    def meet(self, o):
        return Dom(self.ints.meet(o.ints), self.none and o.none, self.syms & o.syms)

    def minus(self, o):
        return Dom(self.ints.minus(o.ints), self.none and not o.none, self.syms - o.syms)

    def join(self, o):
        return Dom(self.ints.join(o.ints), self.none or o.none, self.syms | o.syms)

    def subset(self, o):
        return self.minus(o).empty()

    def __eq__(self, o):
        return isinstance(o, Dom) and (self.ints, self.none, self.syms) == (o.ints, o.none, o.syms)

    def __hash__(self):
        return hash((self.ints, self.none, self.syms))

    def with_(self, ints=None, none=None, syms=None):
        return Dom(self.ints if ints is None else ints,
                   self.none if none is None else none,
                   self.syms if syms is None else syms)

    def __repr__(self):
        parts = []
        if not self.ints.empty():
            parts.append(repr(self.ints))
        if self.none:
            parts.append("None")
        if self.syms:
            parts.append("{" + ",".join(sorted(self.syms)) + "}")
        return "|".join(parts) or "EMPTY"


def box_empty(b):
    return any(d.empty() for d in b.values())


def box_meet(a, b):
    out = dict(a)
    for k, d in b.items():
        out[k] = out[k].meet(d) if k in out else d
    return out


def box_minus(a, b, top):
    """a \\ b as a list of disjoint boxes.  `top` maps var -> TOP Dom for
    variables missing from a box."""
    keys = sorted(set(a) | set(b))
    if box_empty(box_meet({k: a.get(k, top[k]) for k in keys},
                          {k: b.get(k, top[k]) for k in keys})):
        return [a]
    out = []
    cur = {k: a.get(k, top[k]) for k in keys}
    for k in keys:
        bd = b.get(k, top[k])
        diff = cur[k].minus(bd)
        if not diff.empty():
            piece = dict(cur)
            piece[k] = diff
            out.append(piece)
        cur[k] = cur[k].meet(bd)
    return out


def boxes_minus(As, Bs, top):
    """Union(As) \\ Union(Bs) as list of boxes."""
    res = list(As)
    for b in Bs:
        nxt = []
        for a in res:
            nxt.extend(x for x in box_minus(a, b, top) if not box_empty(x))
        res = nxt
        if len(res) > 20000:
            raise OverflowError("box algebra blow-up")
    return res


def box_fmt(b, top):
    return {k: repr(d) for k, d in sorted(b.items()) if d != top.get(k)}
