#!/usr/bin/env python3
# Driver: ./vcheck <Cxx> quick|thorough [--repo PATH]
#   exit 0  every obligation discharged (after listed known findings)
#   exit 1  VIOLATION lines printed
#   exit 2  ANALYSIS-ERROR (no verdict)

import importlib
import os
import sys
import traceback

HERE = os.path.dirname(os.path.abspath(__file__))
sys.path.insert(0, HERE)

from report import Ledger, AnalysisError  # noqa: E402

PROPS = ["C%02d" % i for i in range(1, 21)]


_LENT = {}


def _run_lender(lender, tier, repo):
    """the lender's rule groups on a ledger of their own (no verdict, no evidence file written)"""
    k = (lender, tier, repo)
    if k not in _LENT:
        lmod = importlib.import_module("rules.%s" % lender.lower())
        sub = Ledger(lender, tier, repo, quiet=True)
        try:
            lmod.run(sub, tier)
        except AnalysisError:
            raise
        except Exception as e:
            raise AnalysisError("rule module of %s failed: %s: %s" % (lender, type(e).__name__, str(e)[:120]))
        _LENT[k] = sub
    return _LENT[k]


def borrow_prerequisites(L, prop, tier):
    import prereq
    for lender, reason, pred in prereq.PREREQUISITES.get(prop, []):
        L.borrow(lender, reason, pred, lambda ln: _run_lender(ln, tier, L.repo))


def run_property(prop, tier, repo, quiet=False):
    mod = importlib.import_module("rules.%s" % prop.lower())
    L = Ledger(prop, tier, repo, explanation=getattr(mod, "EXPLANATION", ""),
               quiet=quiet)
    for a in getattr(mod, "ASSUMPTIONS", []):
        L.assume(a)
    mod.run(L, tier)
    if os.environ.get("VERIF_SHARE_LENDERS") == "1" and not L.deficits:
        # development (tools/try_seed.py --multi): the property's own obligations double as its lender ledger
        import copy
        sub = Ledger(prop, tier, repo, quiet=True)
        sub.obs = [copy.copy(o) for o in L.obs]
        sub.units = dict(L.units)
        _LENT.setdefault((prop, tier, L.repo), sub)
    borrow_prerequisites(L, prop, tier)
    if tier == "thorough" and os.environ.get("VERIF_NO_SELFTEST") != "1":
        # informational: the checker's own mutation self-test on scratch copies of the tree under analysis
        # (a stale anchor on an already-edited tree must not turn the verdict into an error)
        try:
            import selftest
            res = selftest.run_all([prop], repo=L.repo, jobs=int(os.environ.get("VERIF_JOBS", "16")), verbose=False, with_patches=True)
            L.extra["selftest"] = {k: v for k, v in res.items()}
        except Exception as e:      # never let the informational part change the verdict
            L.extra["selftest"] = {"error": str(e)[:200]}
    return L.finish()


def main(argv):
    args = [a for a in argv[1:]]
    repo = os.environ.get("VERIF_REPO", "/repo")
    if "--repo" in args:
        i = args.index("--repo")
        repo = args[i + 1]
        del args[i:i + 2]
    if args and args[0] == "--selftest":
        import selftest
        return selftest.main(args[1:])
    if args and args[0] == "--multi":
        # development helper: several properties in one process (lender ledgers shared), one section per property
        os.environ["VERIF_SHARE_LENDERS"] = "1"
        tier = args[2] if len(args) > 2 else "quick"
        for prop in args[1].split(","):
            print("@@BEGIN %s" % prop)
            try:
                rc = run_property(prop, tier, repo)
            except AnalysisError as e:
                print("ANALYSIS-ERROR: property=%s %s" % (prop, e))
                rc = 2
            except Exception:
                traceback.print_exc(file=sys.stdout)
                print("ANALYSIS-ERROR: property=%s internal error (see traceback)" % prop)
                rc = 2
            print("@@END %s %d" % (prop, rc))
            sys.stdout.flush()
        return 0
    if args and args[0] == "--replay":
        import json
        with open(args[1]) as f:
            r = json.load(f)
        prop, tier = r["property"], r.get("tier", "quick")
        print("replaying rule %s on %s" % (r["obligation"]["rule"], prop))
        args = [prop, tier]
    if len(args) < 1 or args[0] not in PROPS:
        print("usage: vcheck <C01..C20> [quick|thorough] [--repo PATH]")
        return 2
    prop = args[0]
    tier = args[1] if len(args) > 1 else os.environ.get("VERIF_TIER", "quick")
    if tier not in ("quick", "thorough"):
        tier = "quick"
    try:
        return run_property(prop, tier, repo)
    except AnalysisError as e:
        print("ANALYSIS-ERROR: property=%s %s" % (prop, e))
        return 2
    except Exception:
        traceback.print_exc()
        print("ANALYSIS-ERROR: property=%s internal error (see traceback)" % prop)
        return 2


if __name__ == "__main__":
    rc = main(sys.argv)
    sys.stdout.flush()
    sys.exit(rc)
