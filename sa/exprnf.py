# E7 -- expression normal forms shared by the Python and C rules.
#
# Terms are nested tuples:
#   ('c', int)                      constant
#   ('v', name)                     variable / opaque leaf
#   ('+', t1, t2, ...)  ('*', ...)  n-ary, sorted, constants folded
#   ('-', a, b) is rewritten to a + (-1)*b
#   ('mod', a, n) ('div', a, n) ('&', ...) ('|', ...) ('^', ...)
#   ('<<', a, k) ('>>', a, k) ('neg', a)
#   ('idx', base, i)  ('ite', cond, a, b)  ('cmp', op, a, b)  ('call', f, args...)
# Rewrites: x & (2^k - 1) == x mod 2^k ; (x + k*n) mod n == x mod n ;
# (x mod n) mod n == x mod n ; linear collection of like terms.

import ast

from report import AnalysisError


def C(n):
    return ("c", int(n))


def V(n):
    return ("v", n)


def is_c(t):
    return t[0] == "c"


def _flat(op, args):
    out = []
    for a in args:
        if a[0] == op:
            out.extend(a[1:])
        else:
            out.append(a)
    return out


def add(*args):
    args = _flat("+", args)
    const = 0
    coeff = {}
    order = []
    for a in args:
        if is_c(a):
            const += a[1]
            continue
        k, t = 1, a
        if a[0] == "*" and len(a) == 3 and is_c(a[1]):
            k, t = a[1][1], a[2]
        if t not in coeff:
            coeff[t] = 0
            order.append(t)
        coeff[t] += k
    terms = []
    for t in sorted(order, key=repr):
        k = coeff[t]
        if k == 0:
            continue
        terms.append(t if k == 1 else ("*", C(k), t))
    if const != 0 or not terms:
        terms.append(C(const))
    if len(terms) == 1:
        return terms[0]
    return ("+",) + tuple(terms)


def mul(*args):
    args = _flat("*", args)
    const = 1
    rest = []
    for a in args:
        if is_c(a):
            const *= a[1]
        else:
            rest.append(a)
    if const == 0:
        return C(0)
    if not rest:
        return C(const)
    rest = sorted(rest, key=repr)
    if len(rest) == 1 and rest[0][0] == "+":
        # distribute constant over sum
        return add(*[mul(C(const), t) for t in rest[0][1:]])
    body = rest[0] if len(rest) == 1 else ("*",) + tuple(rest)
    if const == 1:
        return body
    if body[0] == "*":
        return ("*", C(const)) + body[1:]
    return ("*", C(const), body)


def sub(a, b):
    return add(a, mul(C(-1), b))


def neg(a):
    return mul(C(-1), a)


def _pow2m1(n):
    return n > 0 and (n & (n + 1)) == 0


def mod(a, n):
    if is_c(a) and is_c(n) and n[1] != 0:
        return C(a[1] % n[1])
    if a[0] == "mod" and a[2] == n:
        return a
    if is_c(n) and a[0] == "+":
        # drop multiples of n, reduce constants
        terms = []
        for t in a[1:]:
            if is_c(t):
                if t[1] % n[1]:
                    terms.append(C(t[1] % n[1]))
            elif t[0] == "*" and is_c(t[1]) and t[1][1] % n[1] == 0:
                continue
            else:
                terms.append(t)
        a = add(*terms) if terms else C(0)
    if a[0] == "+" and not is_c(n):
        # (x + n) mod n == x mod n  for symbolic n
        terms = [t for t in a[1:] if t != n]
        if len(terms) != len(a) - 1:
            a = add(*terms) if terms else C(0)
    return ("mod", a, n)


def band(*args):
    args = _flat("&", args)
    consts = [a for a in args if is_c(a)]
    rest = [a for a in args if not is_c(a)]
    if consts:
        c = consts[0][1]
        for x in consts[1:]:
            c &= x[1]
        if not rest:
            return C(c)
        if _pow2m1(c):
            inner = rest[0] if len(rest) == 1 else ("&",) + tuple(sorted(rest, key=repr))
            return mod(inner, C(c + 1))
        rest.append(C(c))
    rest = sorted(rest, key=repr)
    return rest[0] if len(rest) == 1 else ("&",) + tuple(rest)


def bor(*args):
    args = _flat("|", args)
    c = 0
    rest = []
    for a in args:
        if is_c(a):
            c |= a[1]
        else:
            rest.append(a)
    if c:
        rest.append(C(c))
    if not rest:
        return C(0)
    rest = sorted(set(rest), key=repr)
    return rest[0] if len(rest) == 1 else ("|",) + tuple(rest)


def bxor(*args):
    args = _flat("^", args)
    c = 0
    rest = []
    for a in args:
        if is_c(a):
            c ^= a[1]
        else:
            rest.append(a)
    if c:
        rest.append(C(c))
    if not rest:
        return C(0)
    rest = sorted(rest, key=repr)
    return rest[0] if len(rest) == 1 else ("^",) + tuple(rest)


def shl(a, k):
    if is_c(a) and is_c(k):
        return C(a[1] << k[1])
    if is_c(k):
        return mul(C(1 << k[1]), a)
    return ("<<", a, k)


def shr(a, k):
    if is_c(a) and is_c(k):
        return C(a[1] >> k[1])
    if is_c(k) and k[1] == 0:
        return a
    return (">>", a, k)


def div(a, n):
    if is_c(a) and is_c(n) and n[1] != 0:
        return C(a[1] // n[1])
    if is_c(n) and n[1] == 1:
        return a
    return ("div", a, n)


def ite(c, a, b):
    if a == b:
        return a
    return ("ite", c, a, b)


def cmp_(op, a, b):
    # canonicalise to < and ==
    if op == ">":
        return ("cmp", "<", b, a)
    if op == ">=":
        return ("not", ("cmp", "<", a, b))
    if op == "<=":
        return ("not", ("cmp", "<", b, a))
    if op == "!=":
        return ("not", ("cmp", "==") + tuple(sorted([a, b], key=repr)))
    if op == "==":
        return ("cmp", "==") + tuple(sorted([a, b], key=repr))
    return ("cmp", op, a, b)


def show(t):
    k = t[0]
    if k == "c":
        return str(t[1])
    if k == "v":
        return t[1]
    if k in ("+", "*", "&", "|", "^"):
        return "(" + (" %s " % k).join(show(x) for x in t[1:]) + ")"
    if k in ("mod", "div", "<<", ">>"):
        return "(%s %s %s)" % (show(t[1]), k, show(t[2]))
    if k == "idx":
        return "%s[%s]" % (show(t[1]), show(t[2]))
    if k == "ite":
        return "(%s ? %s : %s)" % (show(t[1]), show(t[2]), show(t[3]))
    if k == "cmp":
        return "(%s %s %s)" % (show(t[2]), t[1], show(t[3]))
    if k == "not":
        return "!%s" % show(t[1])
    if k == "call":
        return "%s(%s)" % (t[1], ", ".join(show(x) for x in t[2:]))
    if k == "neg":
        return "-%s" % show(t[1])
    return repr(t)


def linear(t):
    """(coeff dict over non-constant terms, const) of a sum term"""
    if t[0] == "+":
        terms = t[1:]
    else:
        terms = (t,)
    co, c = {}, 0
    for x in terms:
        if is_c(x):
            c += x[1]
        elif x[0] == "*" and len(x) == 3 and is_c(x[1]):
            co[show(x[2])] = co.get(show(x[2]), 0) + x[1][1]
        else:
            co[show(x)] = co.get(show(x), 0) + 1
    return co, c


# ------------------------------------------------------ Python AST lowering

class PyLower:
    """Lower a Python expression AST to a term.  `env` maps names /
    attribute texts to terms (forward substitution); `const` is a callback
    folding closed sub-expressions to ints (or None)."""

    def __init__(self, env=None, const=None, leaf=None):
        self.env = env or {}
        self.const = const
        self.leaf = leaf

    def lower(self, e):
        if self.const is not None:
            v = self.const(e)
            if isinstance(v, bool):
                v = int(v)
            if isinstance(v, int):
                return C(v)
        if isinstance(e, ast.Constant) and isinstance(e.value, (int, bool)):
            return C(int(e.value))
        txt = ast.unparse(e)
        if txt in self.env:
            return self.env[txt]
        if isinstance(e, ast.Name):
            return V(e.id)
        if isinstance(e, ast.Attribute):
            return V(txt)
        if isinstance(e, ast.BinOp):
            a, b = self.lower(e.left), self.lower(e.right)
            op = type(e.op)
            if op is ast.Add:
                return add(a, b)
            if op is ast.Sub:
                return sub(a, b)
            if op is ast.Mult:
                return mul(a, b)
            if op is ast.Mod:
                return mod(a, b)
            if op is ast.FloorDiv:
                return div(a, b)
            if op is ast.BitAnd:
                return band(a, b)
            if op is ast.BitOr:
                return bor(a, b)
            if op is ast.BitXor:
                return bxor(a, b)
            if op is ast.LShift:
                return shl(a, b)
            if op is ast.RShift:
                return shr(a, b)
            raise AnalysisError("exprnf: operator %s" % op.__name__)
        if isinstance(e, ast.UnaryOp):
            if isinstance(e.op, ast.USub):
                return neg(self.lower(e.operand))
            if isinstance(e.op, ast.UAdd):
                return self.lower(e.operand)
            if isinstance(e.op, ast.Not):
                return ("not", self.lower(e.operand))
        if isinstance(e, ast.IfExp):
            return ite(self.lower(e.test), self.lower(e.body), self.lower(e.orelse))
        if isinstance(e, ast.Compare) and len(e.ops) == 1:
            sym = {ast.Lt: "<", ast.LtE: "<=", ast.Gt: ">", ast.GtE: ">=", ast.Eq: "==",
                   ast.NotEq: "!="}.get(type(e.ops[0]))
            if sym:
                return cmp_(sym, self.lower(e.left), self.lower(e.comparators[0]))
        if isinstance(e, ast.Subscript) and not isinstance(e.slice, ast.Slice):
            return ("idx", self.lower(e.value), self.lower(e.slice))
        if isinstance(e, ast.Call):
            f = ast.unparse(e.func)
            if f == "len" and len(e.args) == 1:
                return ("call", "len", self.lower(e.args[0]))
            if f == "int" and len(e.args) == 1:
                return ("call", "int", self.lower(e.args[0]))
            return ("call", f) + tuple(self.lower(a) for a in e.args)
        if self.leaf is not None:
            r = self.leaf(e)
            if r is not None:
                return r
        raise AnalysisError("exprnf: expression outside the vocabulary: %s" % txt[:60])
