# Helper inlining (false-alarm policy, DESIGN section 5): rules are anchored on
# the functions that exist at the pinned commit (spec/baseline_names.json).
# A function or method whose name is NOT in that list was introduced by a later
# refactoring ("extract helper"); before any analysis its calls are inlined
# into the callers so that the rules see the same program shape as before the
# extraction.  Only simple helpers are inlined (straight parameter passing, no
# reassignment of parameters, either a single `return <expr>` body or a body
# without value-returning `return`); anything else is left alone.

import ast
from pyfront import clone as _clone
import copy
import json
import os

from report import VERIF

_BASE = None


def baseline():
    global _BASE
    if _BASE is None:
        p = os.path.join(VERIF, "spec", "baseline_names.json")
        try:
            with open(p) as f:
                _BASE = {k: set(v) for k, v in json.load(f)["names"].items()}
        except (OSError, ValueError, KeyError):
            _BASE = {}
    return _BASE


class _Sub(ast.NodeTransformer):
    def __init__(self, m):
        self.m = m

    def visit_Name(self, n):
        if n.id in self.m and isinstance(n.ctx, ast.Load):
            return _clone(self.m[n.id])
        if n.id in self.m and isinstance(n.ctx, (ast.Store, ast.Del)) and isinstance(self.m[n.id], ast.Name) \
                and getattr(self.m[n.id], "_rename", False):
            return ast.copy_location(ast.Name(id=self.m[n.id].id, ctx=n.ctx), n)
        return n

    def visit_Call(self, n):
        self.generic_visit(n)
        if any(k.arg is None and isinstance(k.value, ast.Name) and ("**" + k.value.id) in self.m for k in n.keywords):
            # `**kwargs` of an inlined helper: the caller's surplus keywords take its place
            new = []
            for k in n.keywords:
                if k.arg is None and isinstance(k.value, ast.Name) and ("**" + k.value.id) in self.m:
                    new.extend(_clone(x) for x in self.m["**" + k.value.id])
                else:
                    new.append(k)
            n.keywords = new
        return n


def _body(fd):
    b = list(fd.body)
    if b and isinstance(b[0], ast.Expr) and isinstance(b[0].value, ast.Constant) and isinstance(b[0].value.value, str):
        b = b[1:]
    return b


def _simple_arg(a):
    return isinstance(a, (ast.Name, ast.Constant, ast.Attribute)) or (
        isinstance(a, ast.UnaryOp) and isinstance(a.operand, ast.Constant))


def _params(fd, skip_self):
    ps = [a.arg for a in fd.args.args]
    if skip_self and ps and ps[0] in ("self", "cls"):
        ps = ps[1:]
    return ps


def _bind(fd, call, skip_self, temps=None, tail=False):
    """param -> argument AST, or None if the call cannot be bound simply"""
    if isinstance(skip_self, tuple) and skip_self[0] == "recv":
        m = _bind(fd, call, True, temps, tail)
        if m is None:
            return None
        # the receiver must not be rebound inside the helper (it is a plain name in the caller)
        m = dict(m)
        m["self"] = ast.Name(id=skip_self[1], ctx=ast.Load())
        return m
    if fd.args.vararg or fd.args.kwonlyargs:
        return None
    kwn = fd.args.kwarg.arg if fd.args.kwarg else None
    if kwn is not None:
        # `**kwargs` that the helper only passes on (`f(..., **kwargs)`): the caller's surplus keywords are spliced in
        passes = {id(k.value) for c in ast.walk(fd) if isinstance(c, ast.Call) for k in c.keywords
                  if k.arg is None and isinstance(k.value, ast.Name) and k.value.id == kwn}
        if any(isinstance(n, ast.Name) and n.id == kwn and id(n) not in passes for n in ast.walk(fd)):
            return None
    ps = _params(fd, skip_self)
    defaults = fd.args.defaults
    dmap = {}
    allps = [a.arg for a in fd.args.args]
    for p, d in zip(allps[len(allps) - len(defaults):], defaults):
        dmap[p] = d
    m = {}
    if len(call.args) > len(ps) or any(isinstance(a, ast.Starred) for a in call.args):
        return None
    for p, a in zip(ps, call.args):
        m[p] = a
    surplus = []
    for k in call.keywords:
        if kwn is not None and (k.arg is None or k.arg not in ps):
            if k.arg is None and not isinstance(k.value, ast.Name):
                return None
            if not _simple_arg(k.value):
                return None
            surplus.append(k)
            continue
        if k.arg is None or k.arg not in ps or k.arg in m:
            return None
        m[k.arg] = k.value
    for p in ps:
        if p not in m:
            if p in dmap:
                m[p] = dmap[p]
            else:
                return None
    # a parameter that is re-bound inside the helper (`if p is None: p = ...`) becomes a local of the caller that starts
    # with the argument's value (only where the caller can take statements)
    stored = sorted({n.id for n in ast.walk(fd) if isinstance(n, ast.Name) and isinstance(n.ctx, (ast.Store, ast.Del)) and n.id in m})
    if stored:
        if temps is None:
            return None
        # `p += x` may be an in-place update of the caller's object (a bytearray handed in) or a re-binding (a number):
        # not told apart here, such helpers are left alone
        if any(isinstance(n, ast.AugAssign) and isinstance(n.target, ast.Name) and n.target.id in stored for n in ast.walk(fd)):
            return None
        for p_ in stored:
            if tail and isinstance(m[p_], ast.Name):
                # tail call with the caller's own variable as argument: that variable is dead after the call, the
                # helper's re-binding can use it directly
                nm_ = ast.Name(id=m[p_].id, ctx=ast.Load())
                nm_._rename = True
                m[p_] = nm_
                continue
            tn = "%s_arg%d" % (p_, len(temps) + 1)
            temps.append(ast.Assign(targets=[ast.Name(id=tn, ctx=ast.Store())], value=m[p_]))
            nm_ = ast.Name(id=tn, ctx=ast.Load())
            nm_._rename = True
            m[p_] = nm_
    # a non-trivial argument may be substituted only if the parameter is used at most once; when the caller can take
    # statements (`temps` given) it is evaluated once into a temporary instead
    for p, a in list(m.items()):
        if not _simple_arg(a):
            uses = sum(1 for n in ast.walk(fd) if isinstance(n, ast.Name) and n.id == p and isinstance(n.ctx, ast.Load))
            if uses > 1:
                if temps is None:
                    return None
                tn = "%s_arg%d" % (p, len(temps) + 1)
                temps.append(ast.Assign(targets=[ast.Name(id=tn, ctx=ast.Store())], value=a))
                m[p] = ast.Name(id=tn, ctx=ast.Load())
    if kwn is not None:
        m["**" + kwn] = surplus
    return m


class _BoolIfExp(ast.NodeTransformer):
    """`False if c else X` is `(not c) and X`, `True if c else X` is `c or X`, `X if c else False` is `c and X`,
    `X if c else True` is `(not c) or X` - for X that is itself a truth value (comparison, boolean operation,
    boolean constant), so that guard literals can be read off a helper that returns early with True / False"""

    def visit_IfExp(self, n):
        self.generic_visit(n)

        def boolish(e):
            return isinstance(e, (ast.Compare, ast.BoolOp)) or (isinstance(e, ast.UnaryOp) and isinstance(e.op, ast.Not)) or \
                (isinstance(e, ast.Constant) and isinstance(e.value, bool))

        def const(e):
            return e.value if isinstance(e, ast.Constant) and isinstance(e.value, bool) else None
        if not (boolish(n.body) and boolish(n.orelse)):
            return n
        nt = ast.UnaryOp(op=ast.Not(), operand=n.test)
        cb, co = const(n.body), const(n.orelse)
        if cb is False:
            r = nt if co is True else ast.BoolOp(op=ast.And(), values=[nt, n.orelse])
        elif cb is True:
            r = n.test if co is False else ast.BoolOp(op=ast.Or(), values=[n.test, n.orelse])
        elif co is False:
            r = ast.BoolOp(op=ast.And(), values=[n.test, n.body])
        elif co is True:
            r = ast.BoolOp(op=ast.Or(), values=[nt, n.body])
        else:
            return n
        return ast.copy_location(r, n)


def _expr_form(fd):
    b = _body(fd)
    if len(b) == 1 and isinstance(b[0], ast.Return) and b[0].value is not None:
        return b[0].value
    e = _expr_of_block(b, {}, 0)
    if e is not None:
        e = _BoolIfExp().visit(e)
    if e is None:
        e = _memo_form(fd)
    return e


def _memo_form(fd):
    """A memoising helper whose cache key covers every input of the cached computation is observationally the
    computation itself:

        [cache = self.A]
        if <cache> is not None and <cache>[i] is|== p_i and ... : return <cache>[k]
        v = CALL(...)                       # mentions only the keyed parameters p_i (no other state)
        self.A = (p_i ..., v)               # v stored at index k, every p_i at its index i
        return v

    Returns CALL (an expression over the helper's parameters) when the body has exactly this form and the key is
    complete; None otherwise (the helper then stays opaque to the rules, which report what they cannot match)."""
    b = [st for st in _body(fd) if not (isinstance(st, ast.Expr) and isinstance(st.value, ast.Constant))]
    ps = [a.arg for a in fd.args.args]
    if not ps or ps[0] != "self" or fd.args.vararg or fd.args.kwarg:
        return None
    alias = None
    if b and isinstance(b[0], ast.Assign) and len(b[0].targets) == 1 and isinstance(b[0].targets[0], ast.Name) \
            and isinstance(b[0].value, ast.Attribute) and isinstance(b[0].value.value, ast.Name) and b[0].value.value.id == "self":
        alias = (b[0].targets[0].id, b[0].value.attr)
        b = b[1:]
    if len(b) != 4:
        return None
    iff, comp, store, ret = b
    if not (isinstance(iff, ast.If) and not iff.orelse and len(iff.body) == 1 and isinstance(iff.body[0], ast.Return)):
        return None
    if not (isinstance(comp, ast.Assign) and len(comp.targets) == 1 and isinstance(comp.targets[0], ast.Name)):
        return None
    v = comp.targets[0].id
    call = comp.value
    if not (isinstance(ret, ast.Return) and isinstance(ret.value, ast.Name) and ret.value.id == v):
        return None
    if not (isinstance(store, ast.Assign) and len(store.targets) == 1 and isinstance(store.targets[0], ast.Attribute)
            and isinstance(store.targets[0].value, ast.Name) and store.targets[0].value.id == "self"
            and isinstance(store.value, ast.Tuple)):
        return None
    attr = store.targets[0].attr
    if alias is not None and alias[1] != attr:
        return None

    def is_cache(e):
        if alias is not None and isinstance(e, ast.Name) and e.id == alias[0]:
            return True
        return isinstance(e, ast.Attribute) and isinstance(e.value, ast.Name) and e.value.id == "self" and e.attr == attr

    def cache_idx(e):
        if isinstance(e, ast.Subscript) and is_cache(e.value) and isinstance(e.slice, ast.Constant) \
                and isinstance(e.slice.value, int):
            return e.slice.value
        return None
    elts = store.value.elts
    vidx = [i for i, e in enumerate(elts) if isinstance(e, ast.Name) and e.id == v]
    if len(vidx) != 1 or cache_idx(iff.body[0].value) != vidx[0]:
        return None
    keyed = {}
    conj = iff.test.values if isinstance(iff.test, ast.BoolOp) and isinstance(iff.test.op, ast.And) else [iff.test]
    for c in conj:
        if not (isinstance(c, ast.Compare) and len(c.ops) == 1):
            return None
        l, op, r = c.left, c.ops[0], c.comparators[0]
        if is_cache(l) and isinstance(op, ast.IsNot) and isinstance(r, ast.Constant) and r.value is None:
            continue
        if cache_idx(l) is None and cache_idx(r) is not None:
            l, r = r, l
        i = cache_idx(l)
        if i is None or not isinstance(op, (ast.Is, ast.Eq)) or not (isinstance(r, ast.Name) and r.id in ps[1:]):
            return None
        if not (i < len(elts) and isinstance(elts[i], ast.Name) and elts[i].id == r.id):
            return None             # the stored key component is not the parameter it is compared with
        keyed[r.id] = i
    # every input of the computation is a keyed parameter; no other state, no local
    for n in ast.walk(call):
        if isinstance(n, ast.Name) and isinstance(n.ctx, ast.Load):
            if n.id not in keyed:
                par = getattr(n, "_parent", None)
                return None
    if not isinstance(call, ast.Call) or any(isinstance(n, (ast.Yield, ast.Await, ast.Lambda)) for n in ast.walk(call)):
        return None
    # parameters are not rebound
    for n in ast.walk(fd):
        if isinstance(n, ast.Name) and isinstance(n.ctx, (ast.Store, ast.Del)) and n.id in ps:
            return None
    return call


def _uses(node, name):
    return sum(1 for n in ast.walk(node) if isinstance(n, ast.Name) and n.id == name and isinstance(n.ctx, ast.Load))


def _expr_of_block(stmts, env, depth):
    """A helper body made of local single-name assignments, if/else and `return <expr>` as ONE expression
    (locals forward-substituted, if/else as a conditional expression), or None."""
    if depth > 4:
        return None
    env = dict(env)
    for i, st in enumerate(stmts):
        rest = stmts[i + 1:]
        if isinstance(st, ast.Expr) and isinstance(st.value, ast.Constant):
            continue
        if isinstance(st, ast.Pass):
            continue
        if isinstance(st, ast.Return):
            if st.value is None:
                return None
            return _Sub(env).visit(_clone(st.value))
        if isinstance(st, ast.Assign) and len(st.targets) == 1 and isinstance(st.targets[0], ast.Name):
            v = _Sub(env).visit(_clone(st.value))
            name = st.targets[0].id
            if any(isinstance(n, (ast.Call, ast.Yield, ast.Await, ast.NamedExpr)) for n in ast.walk(v)):
                # a value with calls is substituted only if it is used at most once afterwards
                if sum(_uses(r, name) for r in rest) > 1:
                    return None
            env[name] = v
            continue
        if isinstance(st, ast.AugAssign) and isinstance(st.target, ast.Name) and st.target.id in env:
            v = _Sub(env).visit(_clone(st.value))
            env[st.target.id] = ast.BinOp(left=env[st.target.id], op=st.op, right=v)
            continue
        if isinstance(st, ast.If):
            t = _Sub(env).visit(_clone(st.test))
            a = _expr_of_block(list(st.body) + list(rest), env, depth + 1)
            b_ = _expr_of_block(list(st.orelse) + list(rest), env, depth + 1)
            if a is None or b_ is None:
                return None
            return ast.IfExp(test=t, body=a, orelse=b_)
        return None
    return None


def _structure_returns(stmts, assign=None):
    """`if c: ...; return` followed by more statements  ->  `if c: ... else: <the rest>` (early exits of a
    procedure turned into nesting), recursively; None when a return sits somewhere else (in a loop, ...).
    With `assign` (a list of assignment targets) a `return V` becomes `targets = V` (a function whose result is
    assigned by the caller); falling off the end assigns None."""
    def ret_stmt(st):
        v = st.value if st.value is not None else ast.Constant(value=None)
        return ast.copy_location(ast.Assign(targets=[_clone(t) for t in assign], value=v), st)
    out = []
    for i, st in enumerate(stmts):
        if isinstance(st, ast.Return):
            if assign is not None:
                return out + [ret_stmt(st)]
            if st.value is not None:
                return None
            return out if out else [ast.Pass()]        # what follows is dead
        if isinstance(st, ast.If):
            has_ret = any(isinstance(n, ast.Return) for n in ast.walk(st))
            if not has_ret:
                out.append(st)
                continue
            rest = stmts[i + 1:]
            if assign is not None:
                # both branches continue with the rest unless they return
                a_ = _structure_returns(list(st.body) + list(rest), assign)
                b_ = _structure_returns(list(st.orelse) + list(rest), assign)
                if a_ is None or b_ is None:
                    return None
                nif = ast.copy_location(ast.If(test=st.test, body=a_ or [ast.Pass()], orelse=b_), st)
                nif._structured = True
                out.append(nif)
                return out
            body_ends = bool(st.body) and isinstance(st.body[-1], ast.Return) and st.body[-1].value is None
            else_ends = bool(st.orelse) and isinstance(st.orelse[-1], ast.Return) and st.orelse[-1].value is None
            if body_ends and not any(isinstance(n, ast.Return) for x in st.body[:-1] for n in ast.walk(x)) \
                    and not any(isinstance(n, ast.Return) for x in st.orelse for n in ast.walk(x)):
                tail = _structure_returns(list(st.orelse) + list(rest))
                if tail is None:
                    return None
                new = ast.copy_location(ast.If(test=st.test, body=(st.body[:-1] or [ast.Pass()]), orelse=tail if tail != [ast.Pass()] or st.orelse else
                                               ([] if not rest else tail)), st)
                out.append(new)
                return out
            if else_ends and not any(isinstance(n, ast.Return) for x in st.orelse[:-1] for n in ast.walk(x)) \
                    and not any(isinstance(n, ast.Return) for x in st.body for n in ast.walk(x)):
                tail = _structure_returns(list(st.body) + list(rest))
                if tail is None:
                    return None
                out.append(ast.copy_location(ast.If(test=st.test, body=tail, orelse=(st.orelse[:-1] or [])), st))
                return out
            return None
        if assign is not None and isinstance(st, ast.Try) and not st.finalbody:
            # `try: ...; return A  except E: ...; return B` followed by the rest: every part assigns the result; what
            # follows the statement runs only when no handler returned, i.e. it belongs to the `else` clause
            rest = stmts[i + 1:]
            def has_ret(b):
                return any(isinstance(n, ast.Return) for x in b for n in ast.walk(x))
            tb = list(st.body)
            els = list(st.orelse) + list(rest)
            if has_ret(tb):
                # a return inside the protected block: only as its last statement, with a value that cannot raise
                if not (isinstance(tb[-1], ast.Return) and not has_ret(tb[:-1])):
                    return None
                rv = tb[-1].value if tb[-1].value is not None else ast.Constant(value=None)
                if isinstance(rv, (ast.Name, ast.Constant)):
                    tb2 = tb[:-1] or [ast.Pass()]
                    els2 = [ret_stmt(tb[-1])]
                else:
                    # `return f(x)`: the call stays protected, its value is kept in a temporary
                    tmp = ast.Name(id="_try_value", ctx=ast.Store())
                    tb2 = tb[:-1] + [ast.copy_location(ast.Assign(targets=[tmp], value=rv), tb[-1])]
                    els2 = [ast.copy_location(ast.Assign(targets=[_clone(t) for t in assign], value=ast.Name(id="_try_value", ctx=ast.Load())), tb[-1])]
                hs = []
                for h in st.handlers:
                    hb_ = _structure_returns(list(h.body), assign) if has_ret(h.body) else None
                    if hb_ is None:
                        if has_ret(h.body):
                            return None
                        hb_ = list(h.body) + [ast.Assign(targets=[_clone(t) for t in assign], value=ast.Constant(value=None))]
                    hs.append(ast.copy_location(ast.ExceptHandler(type=h.type, name=h.name, body=hb_), h))
                nt_ = ast.copy_location(ast.Try(body=tb2, handlers=hs, orelse=els2, finalbody=[]), st)
                nt_._structured = True
                out.append(nt_)
                return out
            if any(has_ret(h.body) for h in st.handlers):
                els_s = _structure_returns(els, assign)
                if els_s is None:
                    return None
                hs = []
                for h in st.handlers:
                    hb_ = _structure_returns(list(h.body), assign) if has_ret(h.body) else None
                    if hb_ is None:
                        return None
                    hs.append(ast.copy_location(ast.ExceptHandler(type=h.type, name=h.name, body=hb_), h))
                nt_ = ast.copy_location(ast.Try(body=tb, handlers=hs, orelse=els_s, finalbody=[]), st)
                nt_._structured = True
                out.append(nt_)
                return out
        if any(isinstance(n, ast.Return) for n in ast.walk(st)):
            return None
        out.append(st)
    if assign is not None:
        out.append(ast.Assign(targets=[_clone(t) for t in assign], value=ast.Constant(value=None)))
    return out


def _stmt_form(fd):
    """body usable as pasted statements: no `return <value>`; bare early returns are turned into nesting"""
    b = _body(fd)
    if any(isinstance(n, ast.Return) and n.value is None for st in b[:-1] for n in ast.walk(st)) or \
            (b and not isinstance(b[-1], ast.Return) and any(isinstance(n, ast.Return) for n in ast.walk(b[-1]))):
        if any(isinstance(n, ast.Return) and n.value is not None for st in b for n in ast.walk(st)):
            return None
        if any(isinstance(n, (ast.Yield, ast.YieldFrom, ast.Global, ast.Nonlocal)) for st in b for n in ast.walk(st)):
            return None
        return _structure_returns([_clone(x) for x in b])
    for i, st in enumerate(b):
        for n in ast.walk(st):
            if isinstance(n, ast.Return):
                if n.value is not None:
                    return None
                if not (n is st and i == len(b) - 1):
                    return None
            if isinstance(n, (ast.Yield, ast.YieldFrom, ast.Global, ast.Nonlocal)):
                return None
    if b and isinstance(b[-1], ast.Return):
        b = b[:-1]
    return b


_BUILTIN_OBJS = {"bytearray", "bytes", "int", "str", "list", "tuple", "dict", "set", "float", "bool", "len", "sorted"}


def _decide(test):
    """truth of a test made only of constants (after parameter substitution), else None"""
    if isinstance(test, ast.Constant):
        return bool(test.value)
    if isinstance(test, ast.UnaryOp) and isinstance(test.op, ast.Not):
        v = _decide(test.operand)
        return None if v is None else (not v)
    if isinstance(test, ast.BoolOp):
        vs = [_decide(v) for v in test.values]
        if isinstance(test.op, ast.And):
            # short circuit: a False operand decides the conjunction if every operand before it is decided True
            for v in vs:
                if v is False:
                    return False
                if v is None:
                    break
            return True if all(v is True for v in vs) else None
        for v in vs:
            if v is True:
                return True
            if v is None:
                break
        return False if all(v is False for v in vs) else None
    if isinstance(test, ast.Compare) and len(test.ops) == 1:
        a, op, b = test.left, test.ops[0], test.comparators[0]

        def val(e):
            if isinstance(e, ast.Constant):
                return ("c", e.value)
            if isinstance(e, ast.Name) and e.id in _BUILTIN_OBJS:
                return ("obj", e.id)
            return None
        va, vb = val(a), val(b)
        if va is None or vb is None:
            return None
        if isinstance(op, (ast.Is, ast.Eq)):
            if va[0] == vb[0] == "c":
                return (va[1] is vb[1]) if isinstance(op, ast.Is) and (va[1] is None or vb[1] is None or isinstance(va[1], bool)) \
                    else (va[1] == vb[1] if isinstance(op, ast.Eq) else None)
            if {va[0], vb[0]} == {"c", "obj"}:
                return False
            return None
        if isinstance(op, (ast.IsNot, ast.NotEq)):
            r = _decide(ast.Compare(left=a, ops=[ast.Is() if isinstance(op, ast.IsNot) else ast.Eq()], comparators=[b]))
            return None if r is None else (not r)
    return None


def _thread_results(body):
    """After a multi-return helper was pasted as `if ...: x = None else: ... x = V`, the caller's test of x that
    follows (`if x is None: return ...`) is moved into the branches (tail duplication) and decided where x was just
    given a constant, which restores the shape of the code before the helper was extracted."""
    for i, st in enumerate(body):
        if isinstance(st, ast.Try) and getattr(st, "_structured", False) and i + 1 < len(body):
            rest = body[i + 1:]
            if sum(1 for _ in ast.walk(ast.Module(body=rest, type_ignores=[]))) > 400:
                return body
            if any(isinstance(n, ast.Raise) or (isinstance(n, ast.Call)) for x in rest[:1] for n in ast.walk(x) if False):
                return body
            # the rest goes behind every handler and behind the else clause (it is not protected by the try: the
            # original statements followed the whole construct)
            def leaf_t(block):
                if _ends(block):
                    return block
                tail = [_clone(x) for x in rest]
                if block and isinstance(block[-1], ast.Assign) and len(block[-1].targets) == 1 and isinstance(block[-1].targets[0], ast.Name) \
                        and isinstance(block[-1].value, ast.Constant):
                    tail = _const_tests(tail, block[-1].targets[0].id, block[-1].value.value)
                return block + tail
            # only safe inside a handler / else if the moved statements are not themselves protected differently:
            # handler bodies and the else clause are outside the try's protection, exactly like the original position
            for h in st.handlers:
                h.body = leaf_t(h.body)
            st.orelse = leaf_t(st.orelse)
            return body[:i] + [st]
        if isinstance(st, ast.If) and getattr(st, "_structured", False) and i + 1 < len(body):
            rest = body[i + 1:]
            if sum(1 for _ in ast.walk(ast.Module(body=rest, type_ignores=[]))) > 400:
                return body
            new_if = _push_rest(st, rest)
            return body[:i] + [new_if]
    return body


def _resolve_temps(stmts):
    """Straight-line resolution of the `<param>_argN` temporaries the binder creates for re-bound parameters:
    `t = <simple value>` is remembered, `if t is None:` / `if t is not None:` is decided when t's value is a constant
    or a display (the taken branch is spliced in), later loads of t are replaced by its value, and the temporary's
    assignments disappear.  Stops (leaves the rest untouched) at the first construct it does not understand."""
    import re as _re

    def is_temp(nm):
        return _re.search(r"_arg\d+$", nm) is not None

    def simple(v):
        return all(isinstance(x, (ast.Constant, ast.Tuple, ast.Name, ast.Attribute, ast.Load)) for x in ast.walk(v))

    def stores_temp(st):
        return [n.id for n in ast.walk(st) if isinstance(n, ast.Name) and isinstance(n.ctx, ast.Store) and is_temp(n.id)]
    env = {}
    out = []
    work = list(stmts)
    while work:
        st = work.pop(0)
        if isinstance(st, ast.Assign) and len(st.targets) == 1 and isinstance(st.targets[0], ast.Name) and is_temp(st.targets[0].id):
            v = _Sub({k: v_ for k, v_ in env.items()}).visit(_clone(st.value))
            if simple(v):
                env[st.targets[0].id] = v
                continue
            env.pop(st.targets[0].id, None)
            out.append(st)
            continue
        if isinstance(st, ast.If) and isinstance(st.test, ast.Compare) and len(st.test.ops) == 1 and isinstance(st.test.left, ast.Name) \
                and st.test.left.id in env and isinstance(st.test.comparators[0], ast.Constant) and st.test.comparators[0].value is None \
                and isinstance(st.test.ops[0], (ast.Is, ast.IsNot)):
            v = env[st.test.left.id]
            known = None
            if isinstance(v, ast.Constant):
                known = v.value is None
            elif isinstance(v, ast.Tuple):
                known = False
            if known is not None:
                taken = st.body if (known == isinstance(st.test.ops[0], ast.Is)) else st.orelse
                work = list(taken) + work
                continue
        if stores_temp(st):
            # a store we do not follow (inside a compound statement): give up on those temporaries from here on
            for t in stores_temp(st):
                if t in env:
                    out.append(ast.Assign(targets=[ast.Name(id=t, ctx=ast.Store())], value=env.pop(t)))
            out.append(st)
            continue
        out.append(_Sub(dict(env)).visit(st) if env else st)
    return out


def _ends(block):
    return bool(block) and isinstance(block[-1], (ast.Return, ast.Raise, ast.Continue, ast.Break))


def _push_rest(ifst, rest):
    def leaf(block):
        if _ends(block):
            return block
        if block and isinstance(block[-1], ast.If) and getattr(block[-1], "_structured", False):
            return block[:-1] + [_push_rest(block[-1], rest)]
        tail = [_clone(x) for x in rest]
        # constant just assigned?
        if block and isinstance(block[-1], ast.Assign) and len(block[-1].targets) == 1 and isinstance(block[-1].targets[0], ast.Name) \
                and isinstance(block[-1].value, ast.Constant):
            tail = _const_tests(tail, block[-1].targets[0].id, block[-1].value.value)
        return block + tail
    ifst.body = leaf(ifst.body)
    ifst.orelse = leaf(ifst.orelse) if ifst.orelse else [_clone(x) for x in rest]
    return ifst


def _const_tests(stmts, name, const):
    """decide the tests of `name` (just bound to the constant `const`) in the leading statements"""
    out = []
    live = True
    for st in stmts:
        if not live:
            out.append(st)
            continue
        if isinstance(st, ast.If):
            class T(ast.NodeTransformer):
                def visit_Name(self_, n_):
                    if n_.id == name and isinstance(n_.ctx, ast.Load):
                        return ast.copy_location(ast.Constant(value=const), n_)
                    return n_
            test2 = T().visit(_clone(st.test))
            v = _decide(test2)
            if v is None and isinstance(test2, ast.Constant):
                v = bool(test2.value)
            if v is not None:
                keep = st.body if v else st.orelse
                out.extend(keep)
                if _ends(keep):
                    return out
                continue
        # any store to the name ends the knowledge
        if any(isinstance(n_, ast.Name) and n_.id == name and isinstance(n_.ctx, (ast.Store, ast.Del)) for n_ in ast.walk(st)):
            live = False
        out.append(st)
    return out


class _Simplify(ast.NodeTransformer):
    """drops branches whose condition became constant by parameter substitution"""

    def visit_IfExp(self, n):
        self.generic_visit(n)
        v = _decide(n.test)
        if v is None:
            return n
        return n.body if v else n.orelse

    def visit_If(self, n):
        self.generic_visit(n)
        v = _decide(n.test)
        if v is None:
            return n
        keep = n.body if v else n.orelse
        return keep if keep else ast.Pass()


class StructNorm(ast.NodeTransformer):
    """Precompiled `struct.Struct` objects are rewritten to the equivalent module-level struct calls, multi-field
    unpacks into one statement per field, `bytearray(struct.pack(...))` into an empty buffer plus an append: the same
    octets are produced/consumed, in the vocabulary the layout rules read.
        N = struct.Struct(F)                     (module level, F constant)
        N.pack(a, ...)            -> struct.pack(F, a, ...)
        N.unpack(x)               -> struct.unpack(F, x)
        N.unpack_from(b[, off])   -> struct.unpack(F, b[off:off + calcsize(F)])
        N.size                    -> calcsize(F)
        (a, b) = struct.unpack(">BL", m[0:5])   -> a = m[0]; b = struct.unpack(">L", m[1:5])[0]
        buf = bytearray(struct.pack(F, ...))    -> buf = bytearray(); buf += struct.pack(F, ...)"""

    def __init__(self, tree):
        self.tree = tree
        self.structs = {}
        self.count = 0
        for st in tree.body:
            if isinstance(st, ast.Assign) and len(st.targets) == 1 and isinstance(st.targets[0], ast.Name) \
                    and isinstance(st.value, ast.Call) and ast.unparse(st.value.func) in ("struct.Struct", "Struct") \
                    and len(st.value.args) == 1 and isinstance(st.value.args[0], ast.Constant) \
                    and isinstance(st.value.args[0].value, str):
                self.structs[st.targets[0].id] = st.value.args[0].value

    def run(self):
        import struct as _st
        self.visit(self.tree)
        self.split(self.tree)
        if self.count:
            ast.fix_missing_locations(self.tree)
        return self.count

    def _fmt(self, e):
        if isinstance(e, ast.Name) and e.id in self.structs:
            return self.structs[e.id]
        return None

    def visit_Attribute(self, n):
        self.generic_visit(n)
        f = self._fmt(n.value)
        if f is not None and n.attr == "size" and isinstance(n.ctx, ast.Load):
            import struct as _st
            self.count += 1
            return ast.copy_location(ast.Constant(value=_st.calcsize(f)), n)
        return n

    def visit_Call(self, n):
        self.generic_visit(n)
        if not isinstance(n.func, ast.Attribute):
            return n
        import struct as _st
        if ast.unparse(n.func) == "struct.unpack_from" and not n.keywords and len(n.args) in (2, 3) \
                and isinstance(n.args[0], ast.Constant) and isinstance(n.args[0].value, str):
            # struct.unpack_from(F, b[, off])  ->  struct.unpack(F, b[off:off + calcsize(F)])
            try:
                size = _st.calcsize(n.args[0].value)
            except _st.error:
                return n
            off = n.args[2] if len(n.args) == 3 else ast.Constant(value=0)
            if isinstance(off, ast.Constant) and isinstance(off.value, int):
                lo, hi = ast.Constant(value=off.value), ast.Constant(value=off.value + size)
            else:
                lo, hi = off, ast.BinOp(left=_clone(off), op=ast.Add(), right=ast.Constant(value=size))
            self.count += 1
            sl = ast.Subscript(value=n.args[1], slice=ast.Slice(lower=lo, upper=hi), ctx=ast.Load())
            fn_ = ast.Attribute(value=ast.Name(id="struct", ctx=ast.Load()), attr="unpack", ctx=ast.Load())
            return ast.copy_location(ast.Call(func=fn_, args=[n.args[0], sl], keywords=[]), n)
        f = self._fmt(n.func.value)
        if f is None or n.keywords:
            return n
        S = ast.Attribute(value=ast.Name(id="struct", ctx=ast.Load()), attr=None, ctx=ast.Load())
        if n.func.attr == "pack":
            self.count += 1
            S.attr = "pack"
            return ast.copy_location(ast.Call(func=S, args=[ast.Constant(value=f)] + list(n.args), keywords=[]), n)
        if n.func.attr == "unpack" and len(n.args) == 1:
            self.count += 1
            S.attr = "unpack"
            return ast.copy_location(ast.Call(func=S, args=[ast.Constant(value=f), n.args[0]], keywords=[]), n)
        if n.func.attr == "unpack_from" and len(n.args) in (1, 2):
            self.count += 1
            S.attr = "unpack"
            size = _st.calcsize(f)
            off = n.args[1] if len(n.args) == 2 else ast.Constant(value=0)
            if isinstance(off, ast.Constant) and isinstance(off.value, int):
                lo, hi = ast.Constant(value=off.value), ast.Constant(value=off.value + size)
            else:
                lo, hi = off, ast.BinOp(left=_clone(off), op=ast.Add(), right=ast.Constant(value=size))
            sl = ast.Subscript(value=n.args[0], slice=ast.Slice(lower=lo, upper=hi), ctx=ast.Load())
            return ast.copy_location(ast.Call(func=S, args=[ast.Constant(value=f), sl], keywords=[]), n)
        return n

    def split(self, node):
        import struct as _st
        for fld in ("body", "orelse", "finalbody"):
            body = getattr(node, fld, None)
            if not isinstance(body, list):
                continue
            out = []
            for st in body:
                if isinstance(st, ast.AST):
                    self.split(st)
                new = self._split_stmt(st)
                out.extend(new)
            setattr(node, fld, out)
        if isinstance(node, ast.Try):
            for h in node.handlers:
                self.split(h)

    def _split_stmt(self, st):
        import struct as _st
        # buf = bytearray(struct.pack(F, ...))
        if isinstance(st, ast.Assign) and len(st.targets) == 1 and isinstance(st.targets[0], ast.Name) \
                and isinstance(st.value, ast.Call) and ast.unparse(st.value.func) == "bytearray" and len(st.value.args) == 1 \
                and isinstance(st.value.args[0], ast.Call) and ast.unparse(st.value.args[0].func) == "struct.pack":
            self.count += 1
            a = ast.copy_location(ast.Assign(targets=[st.targets[0]], value=ast.Call(
                func=ast.Name(id="bytearray", ctx=ast.Load()), args=[], keywords=[])), st)
            b = ast.copy_location(ast.AugAssign(target=ast.Name(id=st.targets[0].id, ctx=ast.Store()), op=ast.Add(),
                                                value=st.value.args[0]), st)
            return [a, b]
        # (a, b, ...) = struct.unpack(F, X[lo:hi])   with an explicit byte order (no padding)
        if isinstance(st, ast.Assign) and len(st.targets) == 1 and isinstance(st.targets[0], (ast.Tuple, ast.List)) \
                and isinstance(st.value, ast.Call) and ast.unparse(st.value.func) == "struct.unpack" \
                and len(st.value.args) == 2 and isinstance(st.value.args[0], ast.Constant) \
                and isinstance(st.value.args[0].value, str) and st.value.args[0].value[:1] in "<>!=":
            fmt = st.value.args[0].value
            order, codes = fmt[0], fmt[1:]
            src = st.value.args[1]
            tg = st.targets[0].elts
            def plain_target(t):
                return isinstance(t, ast.Name) or (isinstance(t, ast.Attribute) and isinstance(t.value, ast.Name))
            lower = src.slice.lower if isinstance(src, ast.Subscript) and isinstance(src.slice, ast.Slice) else None
            const_lo = lower is None or (isinstance(lower, ast.Constant) and isinstance(lower.value, int))
            # a symbolic start (`hdr[self.CHDR_LEN:...]`) is fine as long as no target can change it
            sym_ok = lower is not None and not const_lo and all(isinstance(x, (ast.Name, ast.Attribute, ast.Constant, ast.Load)) for x in ast.walk(lower)) \
                and not any(ast.unparse(t) == ast.unparse(lower) for t in tg)
            if len(codes) == len(tg) >= 2 and all(c in "bBhHiIlLqQ" for c in codes) and all(plain_target(t) for t in tg) \
                    and isinstance(src, ast.Subscript) and isinstance(src.slice, ast.Slice) and (const_lo or sym_ok) \
                    and len({ast.unparse(t) for t in tg}) == len(tg):
                base = 0 if lower is None else lower.value if const_lo else None

                def at(k):
                    if base is not None:
                        return ast.Constant(value=base + k)
                    return _clone(lower) if k == 0 else ast.BinOp(left=_clone(lower), op=ast.Add(), right=ast.Constant(value=k))
                lo = 0
                out = []
                for t, c in zip(tg, codes):
                    sz = _st.calcsize(order + c)
                    if c == "B":
                        val = ast.Subscript(value=_clone(src.value), slice=at(lo), ctx=ast.Load())
                    else:
                        sl = ast.Subscript(value=_clone(src.value), slice=ast.Slice(lower=at(lo), upper=at(lo + sz)), ctx=ast.Load())
                        call = ast.Call(func=ast.Attribute(value=ast.Name(id="struct", ctx=ast.Load()), attr="unpack", ctx=ast.Load()),
                                        args=[ast.Constant(value=order + c), sl], keywords=[])
                        val = ast.Subscript(value=call, slice=ast.Constant(value=0), ctx=ast.Load())
                    tt = _clone(t)
                    out.append(ast.copy_location(ast.Assign(targets=[tt], value=val), st))
                    lo += sz
                self.count += 1
                return out
        return [st]


def split_tuple_assigns(tree):
    """`a, b = (x, y)` (a tuple display of the same length on the right, x and y plain names / attributes / constants
    none of which reads a target) is `a = x; b = y`."""
    count = 0

    def simple(e):
        return all(isinstance(x, (ast.Name, ast.Attribute, ast.Constant, ast.Load, ast.Store)) for x in ast.walk(e))
    for blk in [x for x in ast.walk(tree) if isinstance(getattr(x, "body", None), list)]:
        for fld in ("body", "orelse", "finalbody"):
            body = getattr(blk, fld, None)
            if not isinstance(body, list):
                continue
            i = 0
            while i < len(body):
                st = body[i]
                if isinstance(st, ast.Assign) and len(st.targets) == 1 and isinstance(st.targets[0], (ast.Tuple, ast.List)) \
                        and isinstance(st.value, (ast.Tuple, ast.List)) and len(st.value.elts) == len(st.targets[0].elts) >= 2 \
                        and all(simple(v) for v in st.value.elts) and all(simple(t) for t in st.targets[0].elts):
                    tt = [ast.unparse(t) for t in st.targets[0].elts]
                    vt = [ast.unparse(v) for v in st.value.elts]
                    roots = {t.split(".")[0] for t in tt if "." not in t}
                    if not any(t == v or v.startswith(t + ".") for t in tt for v in vt) and len(set(tt)) == len(tt):
                        new = [ast.copy_location(ast.Assign(targets=[t], value=v), st) for t, v in zip(st.targets[0].elts, st.value.elts)]
                        body[i:i + 1] = new
                        count += 1
                        i += len(new)
                        continue
                i += 1
    if count:
        ast.fix_missing_locations(tree)
    return count


def baseline_attrs():
    baseline()
    p = os.path.join(VERIF, "spec", "baseline_names.json")
    try:
        with open(p) as f:
            d = json.load(f).get("attrs", {})
    except (OSError, ValueError):
        return None
    out = set()
    for v in d.values():
        out.update(v)
    return out


def _rewrite_super(tree):
    """In a class with exactly one base, `super().m(a)` / `super(C, self).m(a)` inside a method whose first
    parameter is `self` is the call `Base.m(self, a)` (single inheritance: the next class in the MRO is the base)."""
    count = 0
    for cls in [x for x in ast.walk(tree) if isinstance(x, ast.ClassDef)]:
        if len(cls.bases) != 1 or not isinstance(cls.bases[0], (ast.Name, ast.Attribute)) or cls.keywords:
            continue
        for m in [x for x in cls.body if isinstance(x, ast.FunctionDef)]:
            if not m.args.args or m.args.args[0].arg != "self" or m.decorator_list:
                continue
            if any(isinstance(x, ast.Name) and x.id == "self" and isinstance(x.ctx, (ast.Store, ast.Del)) for x in ast.walk(m)):
                continue
            for c in [x for x in ast.walk(m) if isinstance(x, ast.Call)]:
                f = c.func
                if isinstance(f, ast.Attribute) and isinstance(f.value, ast.Call) and isinstance(f.value.func, ast.Name) \
                        and f.value.func.id == "super" and not f.value.keywords:
                    sa = f.value.args
                    if sa and not (len(sa) == 2 and isinstance(sa[0], ast.Name) and sa[0].id == cls.name
                                   and isinstance(sa[1], ast.Name) and sa[1].id == "self"):
                        continue
                    f.value = _clone(cls.bases[0])
                    c.args.insert(0, ast.Name(id="self", ctx=ast.Load()))
                    count += 1
    return count


_SIB = {}
_PARSED = {}


def _parsed_file(path):
    """ast of a source file, parsed once per process (read-only uses)"""
    if path not in _PARSED:
        try:
            with open(path, "r", encoding="utf-8", errors="replace") as f:
                _PARSED[path] = ast.parse(f.read())
            _rewrite_super(_PARSED[path])        # (sibling scans look for `Base.__init__(self, ...)` calls)
        except (OSError, SyntaxError):
            _PARSED[path] = None
    return _PARSED[path]


def _sibling_trees(path):
    """parsed sibling modules (same directory, tests excluded) of the module at `path`"""
    d = os.path.dirname(path)
    key = (d, os.path.basename(path))
    if key not in _SIB:
        out = []
        try:
            names = sorted(os.listdir(d))
        except OSError:
            names = []
        for fn in names:
            if fn.endswith(".py") and fn != os.path.basename(path) and not fn.startswith("test_"):
                t = _parsed_file(os.path.join(d, fn))
                if t is not None:
                    out.append(t)
        _SIB[key] = out
    return _SIB[key]


_PURE_CALLS = {"len", "int", "str", "max", "min", "abs", "bool", "float", "round"}


_LIB_SEEK = {"os.SEEK_SET": 0, "os.SEEK_CUR": 1, "os.SEEK_END": 2, "io.SEEK_SET": 0, "io.SEEK_CUR": 1, "io.SEEK_END": 2}


class Evolve:
    """Normalisations for code that was extended after the pinned commit without touching the specified behaviour:

    * statistics: an attribute that did not exist at the pinned commit and that nothing reads except its own updates,
      log lines and functions that did not exist either (accessors) cannot influence any behaviour the rules look at;
      statements that only update such an attribute are dropped;
    * `for x in (x for x in L if c)` is the loop `for x in L: if c: ...` (a generator expression filters lazily, in
      iteration order)."""

    def __init__(self, modname, tree, path=None):
        self.modname, self.tree, self.path = modname, tree, path
        self.base_fn = baseline().get(modname)
        self.count = 0

    def run(self):
        self.super_calls()
        self.container_delegation()
        self.snapshots()
        self.gen_loops()
        if self.base_fn is not None:
            self.new_constants()
            self.new_parameters()
            self.const_locals()
            self.new_attr_constants()
            self.statistics()
        if self.count:
            ast.fix_missing_locations(self.tree)
        return self.count

    # -- containers that delegate iteration / membership to a list attribute
    def container_delegation(self):
        """A class that (since the pinned commit) defines `__iter__` as `return iter(self.A)` and / or `__contains__` as
        `return x in self.A` is iterated / searched through that attribute: `for v in E`, `*E`, `x in E` are rewritten to
        `E.A` where E is known to be such an object - `self` inside the class or a subclass, or an attribute whose every
        store in the toolkit is a constructor call of such a class."""
        if not self.path:
            return
        trees = [(self.modname, self.tree)]
        d = os.path.dirname(self.path)
        for t_ in _sibling_trees(self.path):
            trees.append((None, t_))
        names = []
        try:
            names = sorted(f[:-3] for f in os.listdir(d) if f.endswith(".py") and not f.startswith("test_") and f[:-3] != self.modname)
        except OSError:
            pass
        sib_names = dict(zip([id(t_) for _m, t_ in trees[1:]], names))
        deleg = {}        # class name -> {"iter": attr, "contains": attr}
        bases = {}
        for mn, t_ in trees:
            mod_base = baseline().get(mn if mn else sib_names.get(id(t_), ""), None)
            for cls in [x for x in t_.body if isinstance(x, ast.ClassDef)]:
                bases[cls.name] = [b.id for b in cls.bases if isinstance(b, ast.Name)]
                for m in [x for x in cls.body if isinstance(x, ast.FunctionDef)]:
                    if mod_base is not None and m.name in mod_base:
                        continue
                    body = _body(m)
                    if len(body) != 1 or not isinstance(body[0], ast.Return) or body[0].value is None:
                        continue
                    v = body[0].value
                    if m.name == "__iter__" and isinstance(v, ast.Call) and isinstance(v.func, ast.Name) and v.func.id == "iter" \
                            and len(v.args) == 1 and isinstance(v.args[0], ast.Attribute) and isinstance(v.args[0].value, ast.Name) \
                            and v.args[0].value.id == "self":
                        deleg.setdefault(cls.name, {})["iter"] = v.args[0].attr
                    if m.name == "__contains__" and len(m.args.args) == 2 and isinstance(v, ast.Compare) and len(v.ops) == 1 \
                            and isinstance(v.ops[0], ast.In) and isinstance(v.left, ast.Name) and v.left.id == m.args.args[1].arg \
                            and isinstance(v.comparators[0], ast.Attribute) and isinstance(v.comparators[0].value, ast.Name) \
                            and v.comparators[0].value.id == "self":
                        deleg.setdefault(cls.name, {})["contains"] = v.comparators[0].attr
        if not deleg:
            return

        def family(cn, seen=()):
            if cn in deleg:
                return deleg[cn]
            for b in bases.get(cn, []):
                if b not in seen:
                    r = family(b, seen + (cn,))
                    if r:
                        return r
            return None
        # attributes that always hold such an object
        attr_cls = {}
        for _mn, t_ in trees:
            for n in ast.walk(t_):
                if isinstance(n, ast.Assign):
                    for tg in n.targets:
                        if isinstance(tg, ast.Attribute):
                            cn = n.value.func.id if isinstance(n.value, ast.Call) and isinstance(n.value.func, ast.Name) else None
                            fam = family(cn) if cn else None
                            prev = attr_cls.get(tg.attr, "unset")
                            attr_cls[tg.attr] = fam if (fam and prev in ("unset", fam)) else None
                elif isinstance(n, (ast.AugAssign, ast.AnnAssign)) and isinstance(n.target, ast.Attribute):
                    attr_cls[n.target.attr] = None
        me = self

        def deleg_of(e, cls_name):
            if isinstance(e, ast.Name) and e.id == "self" and cls_name:
                return family(cls_name)
            if isinstance(e, ast.Attribute) and attr_cls.get(e.attr):
                return attr_cls[e.attr]
            return None

        def wrap(e, attr):
            me.count += 1
            return ast.copy_location(ast.Attribute(value=e, attr=attr, ctx=ast.Load()), e)
        for cls in [x for x in ast.walk(self.tree) if isinstance(x, ast.ClassDef)]:
            for m in [x for x in cls.body if isinstance(x, ast.FunctionDef)]:
                if m.name in ("__iter__", "__contains__"):
                    continue
                for n in ast.walk(m):
                    if isinstance(n, (ast.For, ast.comprehension)):
                        dg = deleg_of(n.iter, cls.name)
                        if dg and "iter" in dg:
                            n.iter = wrap(n.iter, dg["iter"])
                    elif isinstance(n, ast.Starred) and isinstance(n.ctx, ast.Load):
                        dg = deleg_of(n.value, cls.name)
                        if dg and "iter" in dg:
                            n.value = wrap(n.value, dg["iter"])
                    elif isinstance(n, ast.Compare) and len(n.ops) == 1 and isinstance(n.ops[0], (ast.In, ast.NotIn)):
                        dg = deleg_of(n.comparators[0], cls.name)
                        if dg and "contains" in dg:
                            n.comparators[0] = wrap(n.comparators[0], dg["contains"])

    # -- iteration over a snapshot; getattr of an attribute every object has
    def snapshots(self):
        """`for x in tuple(L)` / `list(L)` / `L[:]` visits the elements of L in order (a snapshot only matters when the
        body changes L, which the rules check separately): the loop is the loop over L.  `getattr(o, "a", d)` with a
        constant name that is an attribute of the pinned version's classes reads `o.a` (the default only serves objects
        that lack it)."""
        battrs = baseline_attrs() or set()
        # `peers = tuple(L)` bound once and used only as the thing iterated over
        for fd in [x for x in ast.walk(self.tree) if isinstance(x, ast.FunctionDef)]:
            for blk in [x for x in ast.walk(fd) if isinstance(getattr(x, "body", None), list)]:
                for st in list(blk.body):
                    if isinstance(st, ast.Assign) and len(st.targets) == 1 and isinstance(st.targets[0], ast.Name) \
                            and isinstance(st.value, ast.Call) and isinstance(st.value.func, ast.Name) and st.value.func.id in ("tuple", "list") \
                            and len(st.value.args) == 1 and not st.value.keywords and isinstance(st.value.args[0], (ast.Name, ast.Attribute)):
                        nm = st.targets[0].id
                        uses = [x for x in ast.walk(fd) if isinstance(x, ast.Name) and x.id == nm]
                        iters = [x for x in ast.walk(fd) if isinstance(x, (ast.For, ast.comprehension)) and isinstance(x.iter, ast.Name) and x.iter.id == nm]
                        if len(uses) == 1 + len(iters) and iters and nm not in (self.base_fn or ()):
                            for x in iters:
                                x.iter = _clone(st.value.args[0])
                            blk.body.remove(st)
                            if not blk.body:
                                blk.body.append(ast.Pass())
                            self.count += 1
        for n in ast.walk(self.tree):
            if isinstance(n, (ast.For, ast.comprehension)):
                it = n.iter
                if isinstance(it, ast.Call) and isinstance(it.func, ast.Name) and it.func.id in ("tuple", "list") and len(it.args) == 1 \
                        and not it.keywords and isinstance(it.args[0], (ast.Name, ast.Attribute)):
                    n.iter = it.args[0]
                    self.count += 1
                elif isinstance(it, ast.Subscript) and isinstance(it.slice, ast.Slice) and it.slice.lower is None and it.slice.upper is None \
                        and it.slice.step is None and isinstance(it.value, (ast.Name, ast.Attribute)):
                    n.iter = it.value
                    self.count += 1
        me = self

        class G(ast.NodeTransformer):
            def visit_Call(self_, c):
                self_.generic_visit(c)
                if isinstance(c.func, ast.Name) and c.func.id == "getattr" and len(c.args) == 3 and not c.keywords \
                        and isinstance(c.args[1], ast.Constant) and isinstance(c.args[1].value, str) and c.args[1].value in battrs \
                        and isinstance(c.args[0], (ast.Name, ast.Attribute)) and c.args[1].value.isidentifier():
                    me.count += 1
                    return ast.copy_location(ast.Attribute(value=c.args[0], attr=c.args[1].value, ctx=ast.Load()), c)
                return c
        for fd in [x for x in ast.walk(self.tree) if isinstance(x, ast.FunctionDef)]:
            G().visit(fd)

    # -- super()
    def super_calls(self):
        self.count += _rewrite_super(self.tree)

    # -- attributes introduced later that only ever hold one constant
    def new_attr_constants(self):
        """An attribute that did not exist at the pinned commit, stored exactly once - in `__init__`, as `self.a = K`
        or `self.a = kwargs.get("a", K)` with K a constant and no call anywhere in the toolkit passing the keyword - and
        stored nowhere else (this module, sibling modules, setattr) holds K in every object the toolkit creates: its
        loads through `self` are replaced by K (a later-added option left at the default that reproduces the pinned
        behaviour)."""
        battrs = baseline_attrs()
        if battrs is None or not self.path:
            return
        sibs = _sibling_trees(self.path)
        for cls in [x for x in self.tree.body if isinstance(x, ast.ClassDef)]:
            init = next((m for m in cls.body if isinstance(m, ast.FunctionDef) and m.name == "__init__"), None)
            if init is None:
                continue
            kwname = init.args.kwarg.arg if init.args.kwarg else None
            for st in list(init.body):
                if not (isinstance(st, ast.Assign) and len(st.targets) == 1 and isinstance(st.targets[0], ast.Attribute)
                        and isinstance(st.targets[0].value, ast.Name) and st.targets[0].value.id == "self"):
                    continue
                a = st.targets[0].attr
                if a in battrs:
                    continue
                v, key = st.value, None
                if isinstance(v, ast.Call) and isinstance(v.func, ast.Attribute) and v.func.attr == "get" and kwname \
                        and isinstance(v.func.value, ast.Name) and v.func.value.id == kwname and len(v.args) == 2 \
                        and isinstance(v.args[0], ast.Constant) and isinstance(v.args[0].value, str) and isinstance(v.args[1], ast.Constant):
                    key, const = v.args[0].value, v.args[1]
                elif isinstance(v, ast.Constant):
                    const = v
                else:
                    continue
                if const.value is not None and not isinstance(const.value, (bool, int, str)):
                    continue
                ok = True
                for t in [self.tree] + sibs:
                    for n in ast.walk(t):
                        if isinstance(n, ast.Attribute) and n.attr == a and isinstance(n.ctx, (ast.Store, ast.Del)) and n is not st.targets[0]:
                            ok = False
                        elif isinstance(n, ast.Constant) and n.value in (a, key) and n.value is not None and not (key and n is v.args[0]):
                            ok = False          # setattr(obj, "a", ...) / {"a": ...} / kwargs["a"]
                        elif isinstance(n, ast.keyword) and (n.arg is not None and n.arg in (a, key)):
                            ok = False          # Class(..., a = value)
                        elif isinstance(n, ast.Name) and n.id == "__dict__" or isinstance(n, ast.Attribute) and n.attr == "__dict__":
                            ok = False
                if not ok:
                    continue
                me = self

                class R(ast.NodeTransformer):
                    def visit_Attribute(self_, n):
                        self_.generic_visit(n)
                        if n.attr == a and isinstance(n.ctx, ast.Load) and isinstance(n.value, ast.Name) and n.value.id == "self":
                            me.count += 1
                            return ast.copy_location(_clone(const), n)
                        return n
                for m in [x for x in cls.body if isinstance(x, ast.FunctionDef)]:
                    R().visit(m)
                    _Simplify().visit(m)

    # -- generator-expression loops
    def gen_loops(self):
        # `g = (x for x in L if c)` bound once and consumed by exactly one `for` right in the same block
        for fd in [n for n in ast.walk(self.tree) if isinstance(n, ast.FunctionDef)]:
            for blk in [n for n in ast.walk(fd) if isinstance(getattr(n, "body", None), list)]:
                body = blk.body
                i = 0
                while i + 1 < len(body):
                    a, b = body[i], body[i + 1]
                    if isinstance(a, ast.Assign) and len(a.targets) == 1 and isinstance(a.targets[0], ast.Name) \
                            and isinstance(a.value, ast.GeneratorExp) and isinstance(b, ast.For) \
                            and isinstance(b.iter, ast.Name) and b.iter.id == a.targets[0].id:
                        nm = a.targets[0].id
                        uses = sum(1 for x in ast.walk(fd) if isinstance(x, ast.Name) and x.id == nm)
                        if uses == 2:
                            b.iter = a.value
                            del body[i]
                            self.count += 1
                            continue
                    i += 1
        # `if any(P(x) for x in L): A` where A ends in return / raise  ==  `for x in L: if P(x): A` (first match wins,
        # same evaluation order); what follows the `if` is reached when no element matches
        for blk in [x for x in ast.walk(self.tree) if isinstance(getattr(x, "body", None), list)]:
            for fld in ("body", "orelse", "finalbody"):
                body = getattr(blk, fld, None)
                if not isinstance(body, list):
                    continue
                for i, st in enumerate(body):
                    if isinstance(st, ast.If) and not st.orelse and st.body and isinstance(st.body[-1], (ast.Return, ast.Raise)) \
                            and isinstance(st.test, ast.Call) and isinstance(st.test.func, ast.Name) and st.test.func.id == "any" \
                            and len(st.test.args) == 1 and isinstance(st.test.args[0], ast.GeneratorExp) \
                            and len(st.test.args[0].generators) == 1 and not st.test.args[0].generators[0].is_async:
                        g = st.test.args[0].generators[0]
                        used_in_body = {x.id for s_ in st.body for x in ast.walk(s_) if isinstance(x, ast.Name)}
                        tnames = {x.id for x in ast.walk(g.target) if isinstance(x, ast.Name)}
                        if tnames & used_in_body:
                            continue
                        cond = st.test.args[0].elt
                        if g.ifs:
                            cond = ast.BoolOp(op=ast.And(), values=list(g.ifs) + [cond])
                        inner = ast.copy_location(ast.If(test=cond, body=st.body, orelse=[]), st)
                        body[i] = ast.copy_location(ast.For(target=g.target, iter=g.iter, body=[inner], orelse=[]), st)
                        self.count += 1
        for n in ast.walk(self.tree):
            if isinstance(n, ast.For) and isinstance(n.iter, ast.GeneratorExp) and len(n.iter.generators) == 1 \
                    and not n.orelse:
                g = n.iter.generators[0]
                if g.is_async or not isinstance(n.iter.elt, ast.Name) or not isinstance(g.target, ast.Name) \
                        or n.iter.elt.id != g.target.id or not isinstance(n.target, ast.Name):
                    continue
                # rename the generator's variable to the loop's
                conds = [_Sub({g.target.id: ast.Name(id=n.target.id, ctx=ast.Load())}).visit(_clone(c)) for c in g.ifs]
                n.iter = g.iter
                if conds:
                    test = conds[0] if len(conds) == 1 else ast.BoolOp(op=ast.And(), values=conds)
                    n.body = [ast.copy_location(ast.If(test=test, body=n.body, orelse=[]), n)]
                self.count += 1

    # -- optional parameters introduced later
    def new_parameters(self):
        """A parameter with a constant default that a pinned function did not have, and that no call in the toolkit
        passes, only ever holds its default for the call forms the properties quantify over: the function is
        specialised to that default (the parameter's loads become the constant, conditions decided by it are
        simplified)."""
        import re
        pth = os.path.join(VERIF, "spec", "baseline_names.json")
        try:
            with open(pth) as f:
                bpar = json.load(f).get("params", {}).get(self.modname)
        except (OSError, ValueError):
            return
        if bpar is None:
            return
        sib = ""
        if self.path:
            d = os.path.dirname(self.path)
            try:
                for fn in os.listdir(d):
                    if fn.endswith(".py"):
                        with open(os.path.join(d, fn), "r", encoding="utf-8", errors="replace") as f:
                            sib += f.read() + "\n"
            except OSError:
                return
        todo = []
        for st in self.tree.body:
            if isinstance(st, ast.FunctionDef):
                todo.append((st.name, st))
            elif isinstance(st, ast.ClassDef):
                for x in st.body:
                    if isinstance(x, ast.FunctionDef):
                        todo.append(("%s.%s" % (st.name, x.name), x))
        sibs = _sibling_trees(self.path) if self.path else []
        done = set()
        for _round in range(4):
            progress = False
            for key, fd in todo:
                if key not in bpar:
                    continue
                old_ps = set(bpar[key])
                a = fd.args
                pos = a.args
                dflt = dict(zip([x.arg for x in pos[len(pos) - len(a.defaults):]], a.defaults))
                for x, dv in zip(a.kwonlyargs, a.kw_defaults):
                    if dv is not None:
                        dflt[x.arg] = dv
                for nm, dv in dflt.items():
                    if nm in old_ps or not isinstance(dv, ast.Constant) or (key, nm) in done:
                        continue
                    # passed by any call of a function of this name (this module as normalised so far, sibling modules)?
                    # A keyword carrying the default itself does not count; positional use would need more arguments
                    # than the pinned signature has.
                    nposmax = len([x for x in pos if x.arg in old_ps])
                    blocked = False
                    for t_ in [self.tree] + sibs:
                        for c in ast.walk(t_):
                            if not isinstance(c, ast.Call):
                                continue
                            cn = c.func.attr if isinstance(c.func, ast.Attribute) else c.func.id if isinstance(c.func, ast.Name) else None
                            if fd.name == "__init__":
                                # constructor calls `Class(...)` and explicit `Class.__init__(self, ...)` only - other
                                # classes' __init__ calls are not calls of this function
                                cls_ = key.split(".")[0]
                                if not (cn == cls_ or (cn == "__init__" and isinstance(c.func, ast.Attribute) and ast.unparse(c.func.value) == cls_)):
                                    continue
                            elif cn != fd.name:
                                continue
                            for k in c.keywords:
                                if k.arg is None:
                                    blocked = True
                                elif k.arg == nm and not (isinstance(k.value, ast.Constant) and k.value.value == dv.value
                                                          and type(k.value.value) is type(dv.value)):
                                    blocked = True
                            extra = 1 if (isinstance(c.func, ast.Attribute) or fd.name == "__init__") and pos and pos[0].arg in ("self", "cls") else 0
                            if any(isinstance(x, ast.Starred) for x in c.args):
                                blocked = True
                            elif len(c.args) + extra > nposmax:
                                # positional arguments that reach later-added parameters: harmless only when each of them
                                # spells out the default of the parameter it lands on
                                for i_, a_ in enumerate(c.args):
                                    pi = i_ + extra
                                    if pi < nposmax:
                                        continue
                                    pn = pos[pi].arg if pi < len(pos) else None
                                    dvp = dflt.get(pn) if pn else None
                                    if not (isinstance(a_, ast.Constant) and isinstance(dvp, ast.Constant) and a_.value == dvp.value
                                            and type(a_.value) is type(dvp.value)):
                                        blocked = True
                    if blocked:
                        continue
                    if any(isinstance(n, ast.Name) and n.id == nm and isinstance(n.ctx, (ast.Store, ast.Del)) for n in ast.walk(fd)):
                        # the parameter is re-bound in the body (`if p is None: p = DEFAULT`): its default is what it
                        # holds up to the first statement that stores it; the test of that statement (an `if`) is
                        # evaluated before the store
                        for st in fd.body:
                            has_store = any(isinstance(n, ast.Name) and n.id == nm and isinstance(n.ctx, (ast.Store, ast.Del)) for n in ast.walk(st))
                            if not has_store:
                                _Sub({nm: dv}).visit(st)
                                continue
                            if isinstance(st, ast.If):
                                # the chain of tests of an if / elif ladder is evaluated before any branch body runs
                                cur = st
                                while True:
                                    cur.test = _Sub({nm: dv}).visit(cur.test)
                                    if len(cur.orelse) == 1 and isinstance(cur.orelse[0], ast.If):
                                        cur = cur.orelse[0]
                                    else:
                                        break
                            break
                        _Simplify().visit(fd)
                        fd.body = [x for x in fd.body if not isinstance(x, ast.Pass)] or [ast.Pass()]
                        # what is left is often `p = CONST` followed by uses: then p IS that constant
                        st_p = [n for n in ast.walk(fd) if isinstance(n, ast.Name) and n.id == nm and isinstance(n.ctx, (ast.Store, ast.Del))]
                        top = [x for x in fd.body if isinstance(x, ast.Assign) and len(x.targets) == 1 and isinstance(x.targets[0], ast.Name)
                               and x.targets[0].id == nm and isinstance(x.value, ast.Constant)]
                        if len(st_p) == 1 and len(top) == 1:
                            i_ = fd.body.index(top[0])
                            before = any(isinstance(n, ast.Name) and n.id == nm for x in fd.body[:i_] for n in ast.walk(x))
                            if not before:
                                for x in fd.body[i_ + 1:]:
                                    _Sub({nm: top[0].value}).visit(x)
                                del fd.body[i_]
                        self.count += 1
                        done.add((key, nm))
                        progress = True
                        for c in ast.walk(self.tree):
                            if isinstance(c, ast.Call):
                                cn = c.func.attr if isinstance(c.func, ast.Attribute) else c.func.id if isinstance(c.func, ast.Name) else None
                                if cn == fd.name:
                                    c.keywords = [k for k in c.keywords if k.arg != nm]
                                    extra_ = 1 if isinstance(c.func, ast.Attribute) and pos and pos[0].arg in ("self", "cls") else 0
                                    pidx = [p_.arg for p_ in pos].index(nm) if nm in [p_.arg for p_ in pos] else None
                                    if pidx is not None and pidx - extra_ == len(c.args) - 1 and pidx >= nposmax:
                                        c.args = c.args[:-1]
                        continue
                    for st in fd.body:
                        _Sub({nm: dv}).visit(st)
                    _Simplify().visit(fd)
                    # calls that spell out the default are the plain calls of the pinned version
                    for c in ast.walk(self.tree):
                        if isinstance(c, ast.Call):
                            cn = c.func.attr if isinstance(c.func, ast.Attribute) else c.func.id if isinstance(c.func, ast.Name) else None
                            if cn == fd.name or (fd.name == "__init__" and cn == key.split(".")[0]):
                                c.keywords = [k for k in c.keywords if k.arg != nm]
                                extra_ = 1 if (isinstance(c.func, ast.Attribute) or fd.name == "__init__") and pos and pos[0].arg in ("self", "cls") else 0
                                pidx = [p_.arg for p_ in pos].index(nm) if nm in [p_.arg for p_ in pos] else None
                                if pidx is not None and pidx - extra_ == len(c.args) - 1 and pidx >= nposmax:
                                    c.args = c.args[:-1]      # the trailing positional default
                    self.count += 1
                    done.add((key, nm))
                    progress = True
            if not progress:
                break

    # -- locals that hold one constant
    def const_locals(self):
        """A local that did not exist at the pinned commit and is bound exactly once, to a constant (typically what is
        left of `x = A if option else B` once the option was specialised to its default), stands for that constant in
        the statements that follow its binding in the same block (and in nested blocks)."""
        for fd in [x for x in ast.walk(self.tree) if isinstance(x, ast.FunctionDef)]:
            params_ = {a.arg for a in fd.args.args + fd.args.kwonlyargs}
            for blk in [x for x in ast.walk(fd) if isinstance(getattr(x, "body", None), list)]:
                for fld in ("body", "orelse", "finalbody"):
                    body = getattr(blk, fld, None)
                    if not isinstance(body, list):
                        continue
                    i = 0
                    while i < len(body):
                        st = body[i]
                        if isinstance(st, ast.Assign) and len(st.targets) == 1 and isinstance(st.targets[0], ast.Name) \
                                and isinstance(st.value, ast.Constant) and isinstance(st.value.value, (str, int, bool, bytes, type(None))):
                            nm = st.targets[0].id
                            stores = [n for n in ast.walk(fd) if isinstance(n, ast.Name) and n.id == nm and isinstance(n.ctx, (ast.Store, ast.Del))]
                            uses_elsewhere = [n for n in ast.walk(fd) if isinstance(n, ast.Name) and n.id == nm and isinstance(n.ctx, ast.Load)]
                            inside = [n for x in body[i + 1:] for n in ast.walk(x) if isinstance(n, ast.Name) and n.id == nm and isinstance(n.ctx, ast.Load)]
                            if len(stores) == 1 and nm not in params_ and nm not in (self.base_fn or ()) and len(inside) == len(uses_elsewhere) \
                                    and not any(isinstance(n, (ast.Global, ast.Nonlocal)) for n in ast.walk(fd)):
                                for x in body[i + 1:]:
                                    _Sub({nm: st.value}).visit(x)
                                del body[i]
                                if not body:
                                    body.append(ast.Pass())
                                self.count += 1
                                continue
                        i += 1

    # -- named constants introduced later
    def new_constants(self):
        """A class-level or module-level constant that did not exist at the pinned commit (`WINDOW = H // 2`,
        `HDR_VER_DEFAULT = 0`), assigned once from an expression over literals and pinned names and never stored
        again, stands for that expression: its loads (`self.WINDOW`, `cls.WINDOW`, `Class.WINDOW`, `WINDOW`) are replaced
        by the expression, which restores the code the rules were written for."""
        import re
        battrs = baseline_attrs()
        if battrs is None:
            return
        p = os.path.join(VERIF, "spec", "baseline_names.json")
        try:
            with open(p) as f:
                bglob = set(json.load(f).get("globals", {}).get(self.modname, []))
        except (OSError, ValueError):
            return

        def pure_const(v, allowed_names):
            for x in ast.walk(v):
                if isinstance(x, (ast.Call, ast.Lambda, ast.Yield, ast.Await, ast.NamedExpr, ast.ListComp, ast.DictComp, ast.SetComp,
                                  ast.GeneratorExp, ast.Dict, ast.List, ast.Set, ast.JoinedStr, ast.Starred)):
                    return False
                if isinstance(x, ast.Name) and x.id.islower() and x.id not in allowed_names:
                    return False        # (upper-case names: constants of this or an imported module)
            return True
        # library constants with a documented fixed value (`io.SEEK_END`), reached through a plain `import io` / `import os`
        libmods = {a.asname or a.name for st in self.tree.body if isinstance(st, ast.Import) for a in st.names
                   if a.name in ("io", "os") and (a.asname or a.name) == a.name}
        libmods -= {x.id for x in ast.walk(self.tree) if isinstance(x, ast.Name) and isinstance(x.ctx, (ast.Store, ast.Del))}

        class LibFold(ast.NodeTransformer):
            def visit_Attribute(self_, n):
                self_.generic_visit(n)
                if isinstance(n.value, ast.Name) and n.value.id in libmods and isinstance(n.ctx, ast.Load) \
                        and "%s.%s" % (n.value.id, n.attr) in _LIB_SEEK:
                    return ast.copy_location(ast.Constant(_LIB_SEEK["%s.%s" % (n.value.id, n.attr)]), n)
                return n
        if libmods:
            for holder in [self.tree] + [x for x in self.tree.body if isinstance(x, ast.ClassDef)]:
                for st in holder.body:
                    if isinstance(st, ast.Assign) and len(st.targets) == 1 and isinstance(st.targets[0], ast.Name) \
                            and st.targets[0].id.isupper():
                        st.value = LibFold().visit(st.value)
        # module level
        mod_new = {}
        for st in self.tree.body:
            if isinstance(st, ast.Assign) and len(st.targets) == 1 and isinstance(st.targets[0], ast.Name):
                nm = st.targets[0].id
                if nm not in bglob and nm.isupper() and pure_const(st.value, bglob | set(mod_new)):
                    mod_new[nm] = st
        for nm in list(mod_new):
            stores = sum(1 for x in ast.walk(self.tree) if isinstance(x, ast.Name) and x.id == nm and isinstance(x.ctx, (ast.Store, ast.Del)))
            if stores != 1:
                mod_new.pop(nm)
        # class level
        cls_new = {}
        for cls in [x for x in self.tree.body if isinstance(x, ast.ClassDef)]:
            local = {}
            prior = set()
            for st in cls.body:
                if isinstance(st, ast.Assign) and len(st.targets) == 1 and isinstance(st.targets[0], ast.Name):
                    nm = st.targets[0].id
                    if nm not in battrs and nm.isupper() and pure_const(st.value, bglob | set(mod_new) | prior):
                        local[nm] = st
                    prior.add(nm)
            for nm, st in local.items():
                stores = sum(1 for x in ast.walk(self.tree) if isinstance(x, ast.Attribute) and x.attr == nm and isinstance(x.ctx, (ast.Store, ast.Del)))
                if stores == 0 and nm not in cls_new:
                    cls_new[nm] = (cls.name, st)
                else:
                    cls_new[nm] = None
        cls_new = {k: v for k, v in cls_new.items() if v is not None}
        if not mod_new and not cls_new:
            return
        me = self

        class R(ast.NodeTransformer):
            def visit_Attribute(self_, n):
                self_.generic_visit(n)
                if isinstance(n.ctx, ast.Load) and n.attr in cls_new and isinstance(n.value, ast.Name) \
                        and n.value.id in ("self", "cls", cls_new[n.attr][0]):
                    me.count += 1
                    return ast.copy_location(R().visit(_clone(cls_new[n.attr][1].value)), n)
                return n

            def visit_Name(self_, n):
                if isinstance(n.ctx, ast.Load) and n.id in mod_new:
                    me.count += 1
                    return ast.copy_location(R().visit(_clone(mod_new[n.id].value)), n)
                return n
        # class-level values may mention earlier class-level constants by bare name: resolve inside the class body first
        for cls in [x for x in self.tree.body if isinstance(x, ast.ClassDef)]:
            for st in cls.body:
                if isinstance(st, ast.Assign):
                    class RC(ast.NodeTransformer):
                        def visit_Name(self_, n):
                            if isinstance(n.ctx, ast.Load) and n.id in cls_new and cls_new[n.id][0] == cls.name:
                                return ast.copy_location(_clone(cls_new[n.id][1].value), n)
                            return n
                    st.value = RC().visit(st.value)
        for fd in [n for n in ast.walk(self.tree) if isinstance(n, ast.FunctionDef)]:
            R().visit(fd)

    # -- statistics attributes
    def statistics(self):
        import re
        battrs = baseline_attrs()
        if battrs is None:
            return
        stored = {}
        for n in ast.walk(self.tree):
            if isinstance(n, ast.Attribute) and isinstance(n.ctx, ast.Store) and n.attr not in battrs:
                stored.setdefault(n.attr, []).append(n)
        if not stored:
            return
        sib = ""
        if self.path:
            d = os.path.dirname(self.path)
            try:
                for fn in os.listdir(d):
                    if fn.endswith(".py") and os.path.join(d, fn) != self.path:
                        with open(os.path.join(d, fn), "r", encoding="utf-8", errors="replace") as f:
                            sib += f.read() + "\n"
            except OSError:
                sib = ""
        parents = {}
        for n in ast.walk(self.tree):
            for c in ast.iter_child_nodes(n):
                parents[id(c)] = n

        def enclosing(n, kinds):
            q = parents.get(id(n))
            while q is not None:
                if isinstance(q, kinds):
                    return q
                q = parents.get(id(q))
            return None
        # later-introduced functions whose result or effect can reach pinned code (called, transitively, from a
        # function of the pinned version - in this module or a sibling) are NOT mere accessors
        newfns = {n.name: n for n in ast.walk(self.tree) if isinstance(n, ast.FunctionDef) and n.name not in self.base_fn
                  and not (n.name.startswith("__") and n.name.endswith("__"))}
        live_new = set()
        work = []
        for n in ast.walk(self.tree):
            if isinstance(n, ast.FunctionDef) and n.name not in newfns:
                work.append(n)
        seen_f = set()
        while work:
            f_ = work.pop()
            if id(f_) in seen_f:
                continue
            seen_f.add(id(f_))
            for c_ in ast.walk(f_):
                nm_ = None
                if isinstance(c_, ast.Call):
                    nm_ = c_.func.attr if isinstance(c_.func, ast.Attribute) else c_.func.id if isinstance(c_.func, ast.Name) else None
                elif isinstance(c_, ast.Attribute) and isinstance(c_.ctx, ast.Load):
                    nm_ = c_.attr        # property access / bound method taken as a value
                if nm_ in newfns and nm_ not in live_new:
                    live_new.add(nm_)
                    work.append(newfns[nm_])
        for nm_ in newfns:
            if re.search(r"\b%s\b" % re.escape(nm_), sib):
                live_new.add(nm_)
        dead = set()
        # reflective reads (`getattr(o, "a", d)`, `hasattr`, `vars(o)` / `o.__dict__`) are loads too
        strs = {x.value for x in ast.walk(self.tree) if isinstance(x, ast.Constant) and isinstance(x.value, str)}
        if any((isinstance(x, ast.Attribute) and x.attr == "__dict__") or (isinstance(x, ast.Name) and x.id == "vars") for x in ast.walk(self.tree)):
            return
        for a in stored:
            if re.search(r"\b%s\b" % re.escape(a), sib) or a in strs:
                continue
            ok = True
            for n in ast.walk(self.tree):
                if isinstance(n, ast.Attribute) and n.attr == a and isinstance(n.ctx, ast.Load):
                    st = enclosing(n, (ast.stmt,))
                    fd = enclosing(n, (ast.FunctionDef,))
                    if isinstance(st, ast.AugAssign) and isinstance(st.target, ast.Attribute) and st.target.attr == a:
                        continue
                    if isinstance(st, ast.Assign) and all(isinstance(t, ast.Attribute) and t.attr == a for t in st.targets):
                        continue        # x.a = max(0, x.a - 1) style self update
                    call = enclosing(n, (ast.Call,))
                    in_log = False
                    q = call
                    while q is not None:
                        if isinstance(q, ast.Call) and ast.unparse(q.func).startswith(("log.", "logging.")):
                            in_log = True
                        q = enclosing(q, (ast.Call,))
                    if in_log:
                        continue
                    if fd is not None and fd.name in newfns and fd.name not in live_new:
                        continue
                    ok = False
                    break
            if ok:
                dead.add(a)
        if not dead:
            return

        def pure(v):
            for x in ast.walk(v):
                if isinstance(x, ast.Call) and ast.unparse(x.func) not in _PURE_CALLS:
                    return False
                if isinstance(x, (ast.Yield, ast.Await, ast.NamedExpr)):
                    return False
            return True

        def prune(body):
            out = []
            for st in body:
                for fld in ("body", "orelse", "finalbody"):
                    b = getattr(st, fld, None)
                    if isinstance(b, list) and b and isinstance(b[0], ast.stmt):
                        nb = prune(b)
                        if fld == "body" and not nb:
                            nb = [ast.Pass()]
                        setattr(st, fld, nb)
                if isinstance(st, ast.Try):
                    for h in st.handlers:
                        h.body = prune(h.body) or [ast.Pass()]
                drop = False
                if isinstance(st, ast.AugAssign) and isinstance(st.target, ast.Attribute) and st.target.attr in dead and pure(st.value):
                    drop = True
                if isinstance(st, ast.Assign) and st.targets and all(isinstance(t, ast.Attribute) and t.attr in dead for t in st.targets) \
                        and pure(st.value):
                    drop = True
                if drop:
                    self.count += 1
                    continue
                out.append(st)
            return out
        for n in ast.walk(self.tree):
            if isinstance(n, (ast.FunctionDef, ast.ClassDef, ast.Module)):
                nb = prune(n.body)
                n.body = nb if nb else [ast.Pass()]


class Inliner:
    def __init__(self, modname, tree, path=None):
        self.path = path
        self.base = baseline().get(modname)
        self.tree = tree
        self.count = 0
        # candidates: new module-level functions and new methods (by class)
        self.funcs = {}
        self.methods = {}
        self.props = {}
        self.foreign = {}        # method name -> FunctionDef of a later-introduced expression helper of a sibling module
        if path and self.base is not None:
            d_ = os.path.dirname(path)
            try:
                names_ = sorted(f for f in os.listdir(d_) if f.endswith(".py") and os.path.join(d_, f) != path and not f.startswith("test_"))
            except OSError:
                names_ = []
            dup = set()
            for f in names_:
                b2 = baseline().get(f[:-3])
                if b2 is None:
                    continue
                t2 = _parsed_file(os.path.join(d_, f))
                if t2 is None:
                    continue
                for cls_ in [x for x in t2.body if isinstance(x, ast.ClassDef)]:
                    for m_ in cls_.body:
                        if isinstance(m_, ast.FunctionDef) and m_.name not in b2 and not (m_.name.startswith("__") and m_.name.endswith("__")) \
                                and not m_.decorator_list:
                            if m_.name in self.foreign:
                                dup.add(m_.name)
                            self.foreign[m_.name] = m_
            for n_ in dup:
                self.foreign.pop(n_, None)
            allnames = set()
            for v_ in baseline().values():
                allnames |= set(v_)
            battrs_ = baseline_attrs() or set()
            import builtins as _b
            stop_ = set()
            for t_ in (dict, list, str, bytes, bytearray, set, tuple, int, float, object):
                stop_ |= set(dir(t_))
            for n_ in list(self.foreign):
                if n_ in allnames or n_ in battrs_ or n_ in stop_:
                    # a pinned function / an attribute name already in use / a method of a built-in type carries that
                    # name: `x.name(...)` need not be a call of the new helper
                    self.foreign.pop(n_)
        self.modnames = set()
        for st in tree.body:
            if isinstance(st, ast.Import):
                for a in st.names:
                    self.modnames.add((a.asname or a.name).split(".")[0])
        if self.base is None:
            return
        for st in tree.body:
            if isinstance(st, ast.FunctionDef) and st.name not in self.base:
                self.funcs[st.name] = st
            elif isinstance(st, ast.ClassDef):
                for m in st.body:
                    if isinstance(m, ast.FunctionDef) and m.name not in self.base and not (
                            m.name.startswith("__") and m.name.endswith("__")):
                        if not any(isinstance(d, ast.Name) and d.id == "property" for d in m.decorator_list):
                            self.methods.setdefault(m.name, []).append((st.name, m))
                        elif len(m.decorator_list) == 1 and len(m.args.args) == 1 and m.args.args[0].arg == "self" \
                                and m.name not in (baseline_attrs() or {m.name}):
                            # a read-only property introduced later (no setter can exist under a brand-new name
                            # without a second definition, which the duplicate test below excludes)
                            self.props.setdefault(m.name, []).append((st.name, m))
        # a method name that another class of the toolkit (this module or a sibling) defines as well may be dispatched to
        # either definition (an overriding hook in a subclass): such a call is not the helper's body
        if path:
            d_ = os.path.dirname(path)
            try:
                sib_ = sorted(f for f in os.listdir(d_) if f.endswith(".py") and os.path.join(d_, f) != path and not f.startswith("test_"))
            except OSError:
                sib_ = []
            elsewhere = set()
            for f in sib_:
                t2 = _parsed_file(os.path.join(d_, f))
                if t2 is None:
                    continue
                for cls_ in [x for x in ast.walk(t2) if isinstance(x, ast.ClassDef)]:
                    elsewhere |= {m_.name for m_ in cls_.body if isinstance(m_, ast.FunctionDef)}
            for k_ in list(self.methods):
                if k_ in elsewhere or len(self.methods[k_]) > 1:
                    self.methods.pop(k_)
        defs_ = {}
        for n_ in ast.walk(tree):
            if isinstance(n_, ast.FunctionDef):
                defs_[n_.name] = defs_.get(n_.name, 0) + 1
        stored_ = {n_.attr for n_ in ast.walk(tree) if isinstance(n_, ast.Attribute) and isinstance(n_.ctx, (ast.Store, ast.Del))}
        self.props = {k: v[0] for k, v in self.props.items() if len(v) == 1 and defs_.get(k) == 1 and k not in stored_
                      and _expr_form(v[0][1]) is not None}

    def common_attr_names(self):
        """names that `obj.name(...)` may mean without being a later-introduced helper: attribute names in use at the
        pinned commit and methods of the built-in types"""
        if getattr(self, "_common", None) is None:
            c = set(baseline_attrs() or ())
            for t_ in (dict, list, str, bytes, bytearray, set, tuple, int, float, object):
                c |= set(dir(t_))
            self._common = c
        return self._common

    def target(self, call):
        """(FunctionDef, skip_self) for a call to a new helper, else None"""
        f = call.func
        if isinstance(f, ast.Attribute) and f.attr in self.foreign and f.attr not in self.methods \
                and isinstance(f.value, ast.Name) and f.value.id not in self.modnames:
            # `obj.helper(...)`: an expression helper defined in a sibling module (only self attributes / parameters
            # may occur in it, so it means the same in this module)
            fd = self.foreign[f.attr]
            e = _expr_form(fd)
            ps = [a.arg for a in fd.args.args]
            if e is not None and ps and ps[0] == "self":
                free = {n.id for n in ast.walk(e) if isinstance(n, ast.Name)} - set(ps) - {"True", "False", "None", "len", "int", "abs", "min", "max"}
                if not free:
                    return fd, (("recv", f.value.id) if f.value.id != "self" else True)
        if isinstance(f, ast.Name) and f.id in self.funcs:
            return self.funcs[f.id], False
        if isinstance(f, ast.Attribute) and f.attr in self.methods and len(self.methods[f.attr]) == 1:
            if isinstance(f.value, ast.Name) and f.value.id not in ("self", "cls") and f.value.id != self.methods[f.attr][0][0] \
                    and f.value.id not in self.modnames and f.attr not in self.common_attr_names():
                # `obj.helper(...)` with a plain local as receiver: the helper's `self` is that object
                fd = self.methods[f.attr][0][1]
                if any(isinstance(d, ast.Name) and d.id in ("staticmethod", "classmethod") for d in fd.decorator_list):
                    return None
                ps = [a.arg for a in fd.args.args]
                if not ps or ps[0] != "self":
                    return None
                return fd, ("recv", f.value.id)
            if isinstance(f.value, ast.Name) and (f.value.id in ("self", "cls") or f.value.id == self.methods[f.attr][0][0]):
                fd = self.methods[f.attr][0][1]
                static = any(isinstance(d, ast.Name) and d.id == "staticmethod" for d in fd.decorator_list)
                explicit_self = f.value.id == self.methods[f.attr][0][0] and not static and \
                    not any(isinstance(d, ast.Name) and d.id == "classmethod" for d in fd.decorator_list)
                if explicit_self:
                    return None
                return fd, not static
        return None

    def run(self):
        if not self.funcs and not self.methods and not self.foreign and not self.props:
            if self.base is not None:
                for fd in [n for n in ast.walk(self.tree) if isinstance(n, ast.FunctionDef)]:
                    self.propagate_attr_aliases(fd)
                ast.fix_missing_locations(self.tree)
            return self.count
        for _ in range(3):
            before = self.count
            for fd in [n for n in ast.walk(self.tree) if isinstance(n, ast.FunctionDef)]:
                self.inline_in(fd)
            if self.count == before:
                break
        self.drop_dead_helpers()
        if self.count:
            for fd in [n for n in ast.walk(self.tree) if isinstance(n, ast.FunctionDef)]:
                if getattr(fd, "_inlined_into", False):
                    _Simplify().visit(fd)
                    # `pass` left over from decided conditions
                    for blk in [x for x in ast.walk(fd) if isinstance(getattr(x, "body", None), list)]:
                        for fld in ("body", "orelse", "finalbody"):
                            b_ = getattr(blk, fld, None)
                            if isinstance(b_, list) and len(b_) > 1 and any(isinstance(x, ast.Pass) for x in b_):
                                nb = [x for x in b_ if not isinstance(x, ast.Pass)]
                                setattr(blk, fld, nb or [ast.Pass()])
        if self.base is not None:
            for fd in [n for n in ast.walk(self.tree) if isinstance(n, ast.FunctionDef)]:
                self.propagate_attr_aliases(fd)
                if getattr(fd, "_inlined_into", False):
                    self.paired_counters(fd)
                    self.local_to_attr(fd)
        ast.fix_missing_locations(self.tree)
        return self.count

    def local_to_attr(self, fd):
        """`x = C(...)` ... `x.a = v` ... `self.A = x` (x a local that did not exist at the pinned commit, defined once,
        used only to configure the object before it is stored, never after; nothing in between reads self.A): the
        object is built in the attribute itself - `self.A = C(...)`; `self.A.a = v` (what an extracted factory helper
        looks like after inlining)."""
        base_names = self.base or ()
        for blk in [x for x in ast.walk(fd) if isinstance(getattr(x, "body", None), list)]:
            for fld in ("body", "orelse", "finalbody"):
                body = getattr(blk, fld, None)
                if not isinstance(body, list):
                    continue
                i = 0
                while i < len(body):
                    st = body[i]
                    if isinstance(st, ast.Assign) and len(st.targets) == 1 and isinstance(st.targets[0], ast.Name) \
                            and isinstance(st.value, ast.Call) and st.targets[0].id not in base_names:
                        x = st.targets[0].id
                        stores = [n for n in ast.walk(fd) if isinstance(n, ast.Name) and n.id == x and isinstance(n.ctx, (ast.Store, ast.Del))]
                        if len(stores) == 1:
                            j = i + 1
                            ok = False
                            while j < len(body):
                                s2 = body[j]
                                if isinstance(s2, ast.Assign) and len(s2.targets) == 1 and isinstance(s2.targets[0], ast.Attribute) \
                                        and isinstance(s2.targets[0].value, ast.Name) and s2.targets[0].value.id == "self" \
                                        and isinstance(s2.value, ast.Name) and s2.value.id == x:
                                    ok = True
                                    break
                                # configuration statements: `x.a = <expr not mentioning x>`
                                if isinstance(s2, ast.Assign) and len(s2.targets) == 1 and isinstance(s2.targets[0], ast.Attribute) \
                                        and isinstance(s2.targets[0].value, ast.Name) and s2.targets[0].value.id == x \
                                        and not any(isinstance(n, ast.Name) and n.id == x for n in ast.walk(s2.value)):
                                    j += 1
                                    continue
                                break
                            if ok:
                                tgt = body[j].targets[0]
                                A = tgt.attr
                                between = body[i:j]
                                reads_A = any(isinstance(n, ast.Attribute) and n.attr == A and isinstance(n.value, ast.Name) and n.value.id == "self"
                                              for s_ in between for n in ast.walk(s_))
                                later = any(isinstance(n, ast.Name) and n.id == x for s_ in body[j + 1:] for n in ast.walk(s_))
                                uses_total = sum(1 for n in ast.walk(fd) if isinstance(n, ast.Name) and n.id == x)
                                uses_here = sum(1 for s_ in body[i:j + 1] for n in ast.walk(s_) if isinstance(n, ast.Name) and n.id == x)
                                if not reads_A and not later and uses_total == uses_here:
                                    repl = ast.Attribute(value=ast.Name(id="self", ctx=ast.Load()), attr=A, ctx=ast.Load())
                                    st.targets = [ast.copy_location(ast.Attribute(value=ast.Name(id="self", ctx=ast.Load()), attr=A, ctx=ast.Store()), st.targets[0])]
                                    for s_ in body[i + 1:j]:
                                        s_.targets[0].value = _clone(repl)
                                    del body[j]
                                    self.count += 1
                    i += 1

    def paired_counters(self, fd):
        """`n = 0` ... `L.append(x); n += 1` (the only updates of n, each right after an append to the list L, which
        starts as `[]` and is only appended to at those places): n is len(L) - its reads are replaced by len(L)."""
        inits, incs, other = {}, {}, set()
        for blk in [x for x in ast.walk(fd) if isinstance(getattr(x, "body", None), list)]:
            for fld in ("body", "orelse", "finalbody"):
                body = getattr(blk, fld, None)
                if not isinstance(body, list):
                    continue
                for i, st in enumerate(body):
                    if isinstance(st, ast.Assign) and len(st.targets) == 1 and isinstance(st.targets[0], ast.Name):
                        nm = st.targets[0].id
                        if isinstance(st.value, ast.Constant) and st.value.value == 0 and not isinstance(st.value.value, bool):
                            inits.setdefault(nm, []).append(st)
                        else:
                            other.add(nm)
                    elif isinstance(st, ast.AugAssign) and isinstance(st.target, ast.Name):
                        nm = st.target.id
                        prev = body[i - 1] if i > 0 else None
                        if isinstance(st.op, ast.Add) and isinstance(st.value, ast.Constant) and st.value.value == 1 and \
                                isinstance(prev, ast.Expr) and isinstance(prev.value, ast.Call) and isinstance(prev.value.func, ast.Attribute) \
                                and prev.value.func.attr == "append" and isinstance(prev.value.func.value, ast.Name):
                            incs.setdefault(nm, []).append((st, prev.value.func.value.id, body))
                        else:
                            other.add(nm)
        for nm, lst_ in incs.items():
            if nm in other or len(inits.get(nm, [])) != 1:
                continue
            lists = {l for _, l, _ in lst_}
            if len(lists) != 1:
                continue
            L_ = lists.pop()
            # the list: one `L = []`, appended exactly at the paired sites, never otherwise stored / mutated
            ldefs = [x for x in ast.walk(fd) if isinstance(x, ast.Assign) and len(x.targets) == 1 and isinstance(x.targets[0], ast.Name)
                     and x.targets[0].id == L_]
            if len(ldefs) != 1 or not (isinstance(ldefs[0].value, ast.List) and not ldefs[0].value.elts):
                continue
            appends = [x for x in ast.walk(fd) if isinstance(x, ast.Call) and isinstance(x.func, ast.Attribute) and
                       isinstance(x.func.value, ast.Name) and x.func.value.id == L_]
            if len(appends) != len(lst_) or any(a_.func.attr != "append" for a_ in appends):
                continue
            if any(isinstance(x, ast.Name) and x.id == L_ and isinstance(x.ctx, (ast.Store, ast.Del)) and x is not ldefs[0].targets[0]
                   for x in ast.walk(fd)):
                continue
            # rewrite
            for st, _l, body in lst_:
                body.remove(st)
            for blk in [x for x in ast.walk(fd) if isinstance(getattr(x, "body", None), list)]:
                for fld in ("body", "orelse", "finalbody"):
                    body = getattr(blk, fld, None)
                    if isinstance(body, list) and inits[nm][0] in body:
                        body.remove(inits[nm][0])
                        if not body:
                            body.append(ast.Pass())
            _Sub({nm: ast.Call(func=ast.Name(id="len", ctx=ast.Load()), args=[ast.Name(id=L_, ctx=ast.Load())], keywords=[])}).visit(fd)
            self.count += 1

    def propagate_attr_aliases(self, fd):
        """`x = self.a` (x assigned once, a plain attribute read of self, the attribute not stored in this function,
        x not a name of the pinned version of this function's module) is a read-only alias introduced by a later
        edit: its uses are replaced by `self.a`, so guards and calls are seen in the shape the rules were written for.
        (Assumes no callee rebinds the attribute between the alias and its uses - the same assumption the rules'
        own single-definition substitution makes.)"""
        cands = {}
        stores = {}
        for n in ast.walk(fd):
            if isinstance(n, ast.Name) and isinstance(n.ctx, (ast.Store, ast.Del)):
                stores[n.id] = stores.get(n.id, 0) + 1
        params = {a.arg for a in fd.args.args + fd.args.kwonlyargs}
        for st in fd.body:
            if isinstance(st, ast.Assign) and len(st.targets) == 1 and isinstance(st.targets[0], ast.Name) \
                    and isinstance(st.value, ast.Attribute) and isinstance(st.value.value, ast.Name) \
                    and (st.value.value.id == "self" or (st.value.value.id in params and stores.get(st.value.value.id, 0) == 0)):
                nm = st.targets[0].id
                if stores.get(nm) == 1 and nm not in params and nm not in (self.base or ()):
                    attr = st.value.attr
                    rebound = any(isinstance(x, ast.Attribute) and x.attr == attr and isinstance(x.ctx, (ast.Store, ast.Del))
                                  for x in ast.walk(fd))
                    if not rebound:
                        cands[nm] = st
        if not cands:
            return
        m = {nm: st.value for nm, st in cands.items()}
        for nm, st in cands.items():
            fd.body.remove(st)
        if not fd.body:
            fd.body.append(ast.Pass())
        _Sub(m).visit(fd)
        self.count += len(cands)

    def drop_dead_helpers(self):
        """A new helper all of whose uses were inlined is removed from the analysed tree: its body now lives in the
        callers, and whole-module scans (who-may-write, who-may-call) must not see it a second time under the
        helper's name. It is kept when any reference remains in this module or in a sibling module."""
        import re
        if self.count == 0:
            return
        sib = ""
        if self.path:
            d = os.path.dirname(self.path)
            try:
                for fn in os.listdir(d):
                    if fn.endswith(".py") and os.path.join(d, fn) != self.path:
                        with open(os.path.join(d, fn), "r", encoding="utf-8", errors="replace") as f:
                            sib += f.read() + "\n"
            except OSError:
                sib = ""
        cands = [(None, fd) for fd in self.funcs.values()]
        for lst in self.methods.values():
            cands += lst
        cands += list(self.props.values())
        for owner, fd in cands:
            name = fd.name
            refs = 0
            for n in ast.walk(self.tree):
                if isinstance(n, ast.Attribute) and n.attr == name:
                    refs += 1
                elif isinstance(n, ast.Name) and n.id == name:
                    refs += 1
                elif isinstance(n, ast.Constant) and n.value == name:
                    refs += 1          # getattr(obj, "name")
            if refs or re.search(r"\b%s\b" % re.escape(name), sib):
                continue
            for n in ast.walk(self.tree):
                body = getattr(n, "body", None)
                if isinstance(body, list) and fd in body:
                    body.remove(fd)
                    if not body:
                        body.append(ast.Pass())

    def inline_in(self, fd):
        me = self

        class ExprT(ast.NodeTransformer):
            def visit_Call(self, c):
                self.generic_visit(c)
                t = me.target(c)
                if t is None or t[0] is fd:
                    return c
                h, skip = t
                e = _expr_form(h)
                if e is None:
                    return c
                m = _bind(h, c, skip)
                if m is None:
                    return c
                me.count += 1
                fd._inlined_into = True
                return ast.copy_location(_Sub(m).visit(_clone(e)), c)

            def visit_Attribute(self, n):
                self.generic_visit(n)
                if isinstance(n.ctx, ast.Load) and n.attr in me.props and isinstance(n.value, ast.Name) \
                        and n.value.id not in me.modnames and me.props[n.attr][1] is not fd:
                    # read of a later-introduced property: its (expression) body with self bound to the receiver
                    e = _expr_form(me.props[n.attr][1])
                    me.count += 1
                    fd._inlined_into = True
                    return ast.copy_location(_Sub({"self": ast.Name(id=n.value.id, ctx=ast.Load())}).visit(_clone(e)), n)
                return n

            def visit_FunctionDef(self, n):
                return n if n is not fd else self.generic_visit(n)

            def visit_Lambda(self, n):
                return n
        ExprT().visit(fd)

        def block(stmts):
            out = []
            for st in stmts:
                for fld in ("body", "orelse", "finalbody"):
                    if isinstance(getattr(st, fld, None), list) and not isinstance(st, (ast.FunctionDef, ast.ClassDef)):
                        setattr(st, fld, block(getattr(st, fld)))
                if isinstance(st, ast.Try):
                    for h in st.handlers:
                        h.body = block(h.body)
                if isinstance(st, ast.Expr) and isinstance(st.value, ast.Call):
                    t = self.target(st.value)
                    if t is not None and t[0] is not fd:
                        h, skip = t
                        b = _stmt_form(h)
                        temps0 = []
                        m = _bind(h, st.value, skip, temps0) if b is not None else None
                        if b is not None and m is not None:
                            self.count += 1
                            fd._inlined_into = True
                            for t_ in temps0:
                                out.append(ast.copy_location(t_, st))
                            for s in b:
                                out.append(_Sub(m).visit(_clone(s)))
                            continue
                        hb = _body(h)
                        rets = [n for s_ in hb for n in ast.walk(s_) if isinstance(n, ast.Return)]
                        bad = any(isinstance(n, (ast.Yield, ast.YieldFrom, ast.Global, ast.Nonlocal, ast.FunctionDef, ast.Lambda))
                                  for s_ in hb for n in ast.walk(s_))
                        if b is None and hb and not bad and len(rets) == 1 and rets[0] is hb[-1] and rets[0].value is not None \
                                and all(isinstance(x, (ast.Name, ast.Attribute, ast.Constant, ast.Tuple, ast.Load)) for x in ast.walk(rets[0].value)):
                            # the helper's value (a plain name / attribute / constant) is discarded by this caller
                            m = _bind(h, st.value, skip)
                            if m is not None:
                                hlocals = {n.id for s_ in hb for n in ast.walk(s_) if isinstance(n, ast.Name)
                                           and isinstance(n.ctx, (ast.Store, ast.Del))}
                                hlocals -= {a_.arg for a_ in h.args.args}      # (parameters are bound by the call, not renamed)
                                used = {n.id for n in ast.walk(fd) if isinstance(n, ast.Name)} | {a.arg for a in fd.args.args}
                                ren = {}
                                for nm in hlocals:
                                    if nm in used:
                                        k = 1
                                        while "%s_h%d" % (nm, k) in used | hlocals:
                                            k += 1
                                        ren[nm] = "%s_h%d" % (nm, k)

                                class Ren0(ast.NodeTransformer):
                                    def visit_Name(self_, n_):
                                        if n_.id in ren:
                                            return ast.copy_location(ast.Name(id=ren[n_.id], ctx=n_.ctx), n_)
                                        return n_
                                self.count += 1
                                fd._inlined_into = True
                                for s_ in hb[:-1]:
                                    out.append(_Sub(m).visit(Ren0().visit(_clone(s_))))
                                continue
                gen_call = None
                if isinstance(st, (ast.Return, ast.Assign)) and isinstance(st.value, ast.Call) and isinstance(st.value.func, ast.Name) \
                        and st.value.func.id == "list" and len(st.value.args) == 1 and isinstance(st.value.args[0], ast.Call) \
                        and not st.value.keywords:
                    gen_call = st.value.args[0]
                if gen_call is not None:
                    # `return list(gen(...))` / `x = list(gen(...))` with a generator helper: its body with every
                    # `yield v` turned into an append to a fresh list; a bare `return` of the generator ends it
                    t = self.target(gen_call)
                    if t is not None and t[0] is not fd:
                        h, skip = t
                        hb = _body(h)
                        ys = [n for s_ in hb for n in ast.walk(s_) if isinstance(n, (ast.Yield, ast.YieldFrom))]
                        simple = ys and all(isinstance(y, ast.Yield) and isinstance(getattr(y, "_p", None), ast.Expr) for y in ys) if False else bool(ys)
                        ok_y = True
                        for s_ in hb:
                            for n in ast.walk(s_):
                                for ch in ast.iter_child_nodes(n):
                                    if isinstance(ch, ast.Yield) and not isinstance(n, ast.Expr):
                                        ok_y = False
                                    if isinstance(ch, ast.YieldFrom):
                                        ok_y = False
                                if isinstance(n, ast.Return) and n.value is not None:
                                    ok_y = False
                                if isinstance(n, (ast.FunctionDef, ast.Lambda, ast.Global, ast.Nonlocal)):
                                    ok_y = False
                        m = _bind(h, gen_call, skip) if (simple and ok_y) else None
                        if m is not None and isinstance(st, ast.Return):
                            used = {n.id for n in ast.walk(fd) if isinstance(n, ast.Name)} | {a.arg for a in fd.args.args}
                            hlocals = {n.id for s_ in hb for n in ast.walk(s_) if isinstance(n, ast.Name) and isinstance(n.ctx, (ast.Store, ast.Del))}
                            hlocals -= {a_.arg for a_ in h.args.args}      # (parameters are bound by the call, not renamed)
                            lst = "result"
                            k = 0
                            while lst in used | hlocals:
                                k += 1
                                lst = "result_g%d" % k
                            ren = {}
                            for nm in hlocals:
                                if nm in used:
                                    j_ = 1
                                    while "%s_h%d" % (nm, j_) in used | hlocals:
                                        j_ += 1
                                    ren[nm] = "%s_h%d" % (nm, j_)

                            class G(ast.NodeTransformer):
                                def visit_Expr(self_, n_):
                                    if isinstance(n_.value, ast.Yield):
                                        v = n_.value.value if n_.value.value is not None else ast.Constant(value=None)
                                        call = ast.Call(func=ast.Attribute(value=ast.Name(id=lst, ctx=ast.Load()), attr="append", ctx=ast.Load()),
                                                        args=[self_.visit(v)], keywords=[])
                                        return ast.copy_location(ast.Expr(value=call), n_)
                                    return self_.generic_visit(n_)

                                def visit_Return(self_, n_):
                                    return ast.copy_location(ast.Return(value=ast.Name(id=lst, ctx=ast.Load())), n_)

                                def visit_Name(self_, n_):
                                    if n_.id in ren:
                                        return ast.copy_location(ast.Name(id=ren[n_.id], ctx=n_.ctx), n_)
                                    return n_
                            self.count += 1
                            fd._inlined_into = True
                            out.append(ast.copy_location(ast.Assign(targets=[ast.Name(id=lst, ctx=ast.Store())], value=ast.List(elts=[], ctx=ast.Load())), st))
                            for s_ in hb:
                                out.append(_Sub(m).visit(G().visit(_clone(s_))))
                            out.append(ast.copy_location(ast.Return(value=ast.Name(id=lst, ctx=ast.Load())), st))
                            continue
                if isinstance(st, ast.Assign) and isinstance(st.value, ast.Call):
                    # `x = helper(...)` / `a, b = helper(...)`: the helper's statements, then the assignment of what
                    # its single trailing `return` yields (helper locals that clash with the caller's are renamed)
                    t = self.target(st.value)
                    if t is not None and t[0] is not fd:
                        h, skip = t
                        hb = _body(h)
                        rets = [n for s_ in hb for n in ast.walk(s_) if isinstance(n, ast.Return)]
                        bad = any(isinstance(n, (ast.Yield, ast.YieldFrom, ast.Global, ast.Nonlocal, ast.FunctionDef, ast.Lambda))
                                  for s_ in hb for n in ast.walk(s_))
                        multi = hb and not bad and len(rets) >= 2 and _expr_form(h) is None and \
                            not any(isinstance(n, (ast.For, ast.While, ast.With)) and any(isinstance(x, ast.Return) for x in ast.walk(n))
                                    for s_ in hb for n in ast.walk(s_))
                        if multi:
                            temps = []
                            m = _bind(h, st.value, skip, temps)
                            body2 = _structure_returns([_clone(x) for x in hb], assign=st.targets) if m is not None else None
                            if body2 is not None:
                                for t_ in temps:
                                    out.append(ast.copy_location(t_, st))
                                hlocals = {n.id for s_ in hb for n in ast.walk(s_) if isinstance(n, ast.Name)
                                           and isinstance(n.ctx, (ast.Store, ast.Del))}
                                hlocals -= {a_.arg for a_ in h.args.args}      # (parameters are bound by the call, not renamed)
                                used = {n.id for n in ast.walk(fd) if isinstance(n, ast.Name)} | {a.arg for a in fd.args.args}
                                ren = {}
                                for nm in hlocals:
                                    if nm in used:
                                        k = 1
                                        while "%s_h%d" % (nm, k) in used | hlocals:
                                            k += 1
                                        ren[nm] = "%s_h%d" % (nm, k)
                                tnames = {n.id for t_ in st.targets for n in ast.walk(t_) if isinstance(n, ast.Name)}

                                class Ren2(ast.NodeTransformer):
                                    def visit_Assign(self_, n_):
                                        # the synthesised result assignments keep the caller's target names
                                        if n_.targets and all(ast.dump(a) == ast.dump(b) for a, b in zip(n_.targets, st.targets)) \
                                                and len(n_.targets) == len(st.targets) and getattr(n_, "_result", False):
                                            n_.value = self_.visit(n_.value)
                                            return n_
                                        return self_.generic_visit(n_)

                                    def visit_Name(self_, n_):
                                        if n_.id in ren:
                                            return ast.copy_location(ast.Name(id=ren[n_.id], ctx=n_.ctx), n_)
                                        return n_
                                # mark result assignments (those created by the structuring): they are the ones whose
                                # targets are the caller's and that did not exist in the helper
                                orig_assigns = {ast.dump(x) for s_ in hb for x in ast.walk(s_) if isinstance(x, ast.Assign)}
                                for s_ in body2:
                                    for x in ast.walk(s_):
                                        if isinstance(x, ast.Assign) and ast.dump(x) not in orig_assigns:
                                            x._result = True
                                self.count += 1
                                fd._inlined_into = True
                                for s_ in body2:
                                    out.append(_Sub(m).visit(Ren2().visit(s_)))
                                continue
                        if hb and not bad and len(rets) == 1 and rets[0] is hb[-1] and rets[0].value is not None \
                                and _expr_form(h) is None:
                            m = _bind(h, st.value, skip)
                            if m is not None:
                                hlocals = {n.id for s_ in hb for n in ast.walk(s_) if isinstance(n, ast.Name)
                                           and isinstance(n.ctx, (ast.Store, ast.Del))}
                                hlocals -= {a_.arg for a_ in h.args.args}      # (parameters are bound by the call, not renamed)
                                used = {n.id for n in ast.walk(fd) if isinstance(n, ast.Name)} | \
                                       {a.arg for a in fd.args.args}
                                # `(a, b) = helper()` where the helper ends in `return (a, b)`: same names, no renaming
                                def names_of(e):
                                    if isinstance(e, ast.Name):
                                        return [e.id]
                                    if isinstance(e, (ast.Tuple, ast.List)) and all(isinstance(x, ast.Name) for x in e.elts):
                                        return [x.id for x in e.elts]
                                    return None
                                same = len(st.targets) == 1 and names_of(st.targets[0]) is not None and \
                                    names_of(st.targets[0]) == names_of(hb[-1].value)
                                keep = set(names_of(hb[-1].value)) if same else set()
                                # the caller must not use those names before the call (they would be overwritten earlier)
                                if same:
                                    for nm in keep:
                                        for n_ in ast.walk(fd):
                                            if isinstance(n_, ast.Name) and n_.id == nm and getattr(n_, "lineno", 10**9) < st.lineno:
                                                same = False
                                    if not same:
                                        keep = set()
                                ren = {}
                                for nm in hlocals - keep:
                                    if nm in used:
                                        k = 1
                                        while "%s_h%d" % (nm, k) in used | hlocals:
                                            k += 1
                                        ren[nm] = "%s_h%d" % (nm, k)
                                # `x = helper()` where the helper ends in `return v`, v a local of the helper: v IS x
                                # (renamed, no alias assignment) unless the caller's x feeds the call's own arguments
                                rv = hb[-1].value
                                if not same and isinstance(rv, ast.Name) and rv.id in hlocals and len(st.targets) == 1 \
                                        and isinstance(st.targets[0], ast.Name) and st.targets[0].id not in hlocals \
                                        and rv.id not in m \
                                        and not any(isinstance(x, ast.Name) and x.id == st.targets[0].id for x in ast.walk(st.value)):
                                    ren[rv.id] = st.targets[0].id
                                    same = True

                                class Ren(ast.NodeTransformer):
                                    def visit_Name(self_, n_):
                                        if n_.id in ren:
                                            return ast.copy_location(ast.Name(id=ren[n_.id], ctx=n_.ctx), n_)
                                        return n_
                                self.count += 1
                                fd._inlined_into = True
                                for s_ in hb[:-1]:
                                    out.append(_Sub(m).visit(Ren().visit(_clone(s_))))
                                if not same:
                                    val = _Sub(m).visit(Ren().visit(_clone(hb[-1].value)))
                                    out.append(ast.copy_location(ast.Assign(targets=st.targets, value=val), st))
                                continue
                if isinstance(st, ast.Return) and isinstance(st.value, ast.Call):
                    # `return helper(...)`: executing the helper's body in place, its returns become the caller's
                    t = self.target(st.value)
                    if t is not None and t[0] is not fd:
                        h, skip = t
                        hb = _body(h)
                        bad = any(isinstance(n, (ast.Yield, ast.YieldFrom, ast.Global, ast.Nonlocal, ast.FunctionDef, ast.Lambda))
                                  for s_ in hb for n in ast.walk(s_))
                        temps1 = []
                        m = _bind(h, st.value, skip, temps1, tail=True) if not bad else None
                        if m is not None:
                            self.count += 1
                            fd._inlined_into = True
                            for t_ in temps1:
                                out.append(ast.copy_location(t_, st))
                            for s_ in hb:
                                out.append(_Sub(m).visit(_clone(s_)))
                            if not (hb and isinstance(hb[-1], (ast.Return, ast.Raise))):
                                out.append(ast.Return(value=ast.Constant(value=None)))
                            continue
                out.append(st)
            return out if (out or not stmts) else [ast.Pass()]
        fd.body = block(fd.body)
        if getattr(fd, "_inlined_into", False):
            fd.body = _resolve_temps(fd.body) or [ast.Pass()]
            def thread(stmts):
                stmts = _thread_results(stmts)
                for st_ in stmts:
                    for fld in ("body", "orelse", "finalbody"):
                        b_ = getattr(st_, fld, None)
                        if isinstance(b_, list) and b_ and isinstance(b_[0], ast.stmt) and not isinstance(st_, (ast.FunctionDef, ast.ClassDef)):
                            setattr(st_, fld, thread(b_))
                return stmts
            fd.body = thread(fd.body)
