# Helper inlining (false-alarm policy, DESIGN section 5): rules are anchored on
# the functions that exist at the pinned commit (spec/baseline_names.json).
# A function or method whose name is NOT in that list was introduced by a later
# refactoring ("extract helper"); before any analysis its calls are inlined
# into the callers so that the rules see the same program shape as before the
# extraction.  Only simple helpers are inlined (straight parameter passing, no
# reassignment of parameters, either a single `return <expr>` body or a body
# without value-returning `return`); anything else is left alone.

import ast
from pyfront import clone as _clone
import copy
import json
import os

from report import VERIF

_BASE = None


def baseline():
    global _BASE
    if _BASE is None:
        p = os.path.join(VERIF, "spec", "baseline_names.json")
        try:
            with open(p) as f:
                _BASE = {k: set(v) for k, v in json.load(f)["names"].items()}
        except (OSError, ValueError, KeyError):
            _BASE = {}
    return _BASE


class _Sub(ast.NodeTransformer):
    def __init__(self, m):
        self.m = m

    def visit_Name(self, n):
        if n.id in self.m and isinstance(n.ctx, ast.Load):
            return _clone(self.m[n.id])
        return n


def _body(fd):
    b = list(fd.body)
    if b and isinstance(b[0], ast.Expr) and isinstance(b[0].value, ast.Constant) and isinstance(b[0].value.value, str):
        b = b[1:]
    return b


def _simple_arg(a):
    return isinstance(a, (ast.Name, ast.Constant, ast.Attribute)) or (
        isinstance(a, ast.UnaryOp) and isinstance(a.operand, ast.Constant))


def _params(fd, skip_self):
    ps = [a.arg for a in fd.args.args]
    if skip_self and ps and ps[0] in ("self", "cls"):
        ps = ps[1:]
    return ps


def _bind(fd, call, skip_self):
    """param -> argument AST, or None if the call cannot be bound simply"""
    if fd.args.vararg or fd.args.kwarg or fd.args.kwonlyargs:
        return None
    ps = _params(fd, skip_self)
    defaults = fd.args.defaults
    dmap = {}
    allps = [a.arg for a in fd.args.args]
    for p, d in zip(allps[len(allps) - len(defaults):], defaults):
        dmap[p] = d
    m = {}
    if len(call.args) > len(ps) or any(isinstance(a, ast.Starred) for a in call.args):
        return None
    for p, a in zip(ps, call.args):
        m[p] = a
    for k in call.keywords:
        if k.arg is None or k.arg not in ps or k.arg in m:
            return None
        m[k.arg] = k.value
    for p in ps:
        if p not in m:
            if p in dmap:
                m[p] = dmap[p]
            else:
                return None
    # parameters must not be reassigned inside the helper
    for n in ast.walk(fd):
        if isinstance(n, ast.Name) and isinstance(n.ctx, (ast.Store, ast.Del)) and n.id in m:
            return None
    # a non-trivial argument may be substituted only if the parameter is used at most once
    for p, a in m.items():
        if not _simple_arg(a):
            uses = sum(1 for n in ast.walk(fd) if isinstance(n, ast.Name) and n.id == p and isinstance(n.ctx, ast.Load))
            if uses > 1:
                return None
    return m


def _expr_form(fd):
    b = _body(fd)
    if len(b) == 1 and isinstance(b[0], ast.Return) and b[0].value is not None:
        return b[0].value
    return _expr_of_block(b, {}, 0)


def _uses(node, name):
    return sum(1 for n in ast.walk(node) if isinstance(n, ast.Name) and n.id == name and isinstance(n.ctx, ast.Load))


def _expr_of_block(stmts, env, depth):
    """A helper body made of local single-name assignments, if/else and `return <expr>` as ONE expression
    (locals forward-substituted, if/else as a conditional expression), or None."""
    if depth > 4:
        return None
    env = dict(env)
    for i, st in enumerate(stmts):
        rest = stmts[i + 1:]
        if isinstance(st, ast.Expr) and isinstance(st.value, ast.Constant):
            continue
        if isinstance(st, ast.Pass):
            continue
        if isinstance(st, ast.Return):
            if st.value is None:
                return None
            return _Sub(env).visit(_clone(st.value))
        if isinstance(st, ast.Assign) and len(st.targets) == 1 and isinstance(st.targets[0], ast.Name):
            v = _Sub(env).visit(_clone(st.value))
            name = st.targets[0].id
            if any(isinstance(n, (ast.Call, ast.Yield, ast.Await, ast.NamedExpr)) for n in ast.walk(v)):
                # a value with calls is substituted only if it is used at most once afterwards
                if sum(_uses(r, name) for r in rest) > 1:
                    return None
            env[name] = v
            continue
        if isinstance(st, ast.AugAssign) and isinstance(st.target, ast.Name) and st.target.id in env:
            v = _Sub(env).visit(_clone(st.value))
            env[st.target.id] = ast.BinOp(left=env[st.target.id], op=st.op, right=v)
            continue
        if isinstance(st, ast.If):
            t = _Sub(env).visit(_clone(st.test))
            a = _expr_of_block(list(st.body) + list(rest), env, depth + 1)
            b_ = _expr_of_block(list(st.orelse) + list(rest), env, depth + 1)
            if a is None or b_ is None:
                return None
            return ast.IfExp(test=t, body=a, orelse=b_)
        return None
    return None


def _stmt_form(fd):
    """body usable as pasted statements: no `return <value>`, `return` only as the last statement"""
    b = _body(fd)
    for i, st in enumerate(b):
        for n in ast.walk(st):
            if isinstance(n, ast.Return):
                if n.value is not None:
                    return None
                if not (n is st and i == len(b) - 1):
                    return None
            if isinstance(n, (ast.Yield, ast.YieldFrom, ast.Global, ast.Nonlocal)):
                return None
    if b and isinstance(b[-1], ast.Return):
        b = b[:-1]
    return b


class Inliner:
    def __init__(self, modname, tree):
        self.base = baseline().get(modname)
        self.tree = tree
        self.count = 0
        # candidates: new module-level functions and new methods (by class)
        self.funcs = {}
        self.methods = {}
        if self.base is None:
            return
        for st in tree.body:
            if isinstance(st, ast.FunctionDef) and st.name not in self.base:
                self.funcs[st.name] = st
            elif isinstance(st, ast.ClassDef):
                for m in st.body:
                    if isinstance(m, ast.FunctionDef) and m.name not in self.base and not (
                            m.name.startswith("__") and m.name.endswith("__")):
                        if not any(isinstance(d, ast.Name) and d.id == "property" for d in m.decorator_list):
                            self.methods.setdefault(m.name, []).append((st.name, m))

    def target(self, call):
        """(FunctionDef, skip_self) for a call to a new helper, else None"""
        f = call.func
        if isinstance(f, ast.Name) and f.id in self.funcs:
            return self.funcs[f.id], False
        if isinstance(f, ast.Attribute) and f.attr in self.methods and len(self.methods[f.attr]) == 1:
            if isinstance(f.value, ast.Name) and (f.value.id in ("self", "cls") or f.value.id == self.methods[f.attr][0][0]):
                fd = self.methods[f.attr][0][1]
                static = any(isinstance(d, ast.Name) and d.id == "staticmethod" for d in fd.decorator_list)
                explicit_self = f.value.id == self.methods[f.attr][0][0] and not static and \
                    not any(isinstance(d, ast.Name) and d.id == "classmethod" for d in fd.decorator_list)
                if explicit_self:
                    return None
                return fd, not static
        return None

    def run(self):
        if not self.funcs and not self.methods:
            return 0
        for _ in range(3):
            before = self.count
            for fd in [n for n in ast.walk(self.tree) if isinstance(n, ast.FunctionDef)]:
                self.inline_in(fd)
            if self.count == before:
                break
        ast.fix_missing_locations(self.tree)
        return self.count

    def inline_in(self, fd):
        me = self

        class ExprT(ast.NodeTransformer):
            def visit_Call(self, c):
                self.generic_visit(c)
                t = me.target(c)
                if t is None or t[0] is fd:
                    return c
                h, skip = t
                e = _expr_form(h)
                if e is None:
                    return c
                m = _bind(h, c, skip)
                if m is None:
                    return c
                me.count += 1
                return ast.copy_location(_Sub(m).visit(_clone(e)), c)

            def visit_FunctionDef(self, n):
                return n if n is not fd else self.generic_visit(n)

            def visit_Lambda(self, n):
                return n
        ExprT().visit(fd)

        def block(stmts):
            out = []
            for st in stmts:
                for fld in ("body", "orelse", "finalbody"):
                    if isinstance(getattr(st, fld, None), list) and not isinstance(st, (ast.FunctionDef, ast.ClassDef)):
                        setattr(st, fld, block(getattr(st, fld)))
                if isinstance(st, ast.Try):
                    for h in st.handlers:
                        h.body = block(h.body)
                if isinstance(st, ast.Expr) and isinstance(st.value, ast.Call):
                    t = self.target(st.value)
                    if t is not None and t[0] is not fd:
                        h, skip = t
                        b = _stmt_form(h)
                        m = _bind(h, st.value, skip) if b is not None else None
                        if b is not None and m is not None:
                            self.count += 1
                            for s in b:
                                out.append(_Sub(m).visit(_clone(s)))
                            continue
                out.append(st)
            return out if (out or not stmts) else [ast.Pass()]
        fd.body = block(fd.body)
