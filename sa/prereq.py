# Prerequisites between properties.
#
# Several properties are stated on top of behaviour that another property states: a capture file (C15) stores what the
# message codec (C01) encodes; "delivered to the powered-on peers" (C02) presupposes that the power commands drive the
# `running` flag as C12 says; a reply to every command (C05) presupposes that no handler lets an exception escape (C14).
# A change that breaks the lower behaviour breaks the upper property too, at the inputs that reach the broken code.
# The table below lists, per property, the rule instances of OTHER rule modules that are necessary conditions of it as
# well, with the reason.  `check.run_property` runs the lender's rule groups on a ledger of their own and takes the
# selected obligations over (report.Ledger.borrow); they appear in the evidence with `prerequisite_from`.
#
# Ground rules:
#  * only rules whose violation makes the borrowing property's own statement false for some input of its quantifier
#    are listed (the reason names the clause); a rule of the lender that decides more than that is cut down by file /
#    key-text predicates over the obligation's stable key;
#  * a lender that cannot be analysed contributes nothing - the borrower keeps its own verdict;
#  * known findings are matched under the lender's property id (a listed finding stays the same finding).


def sel(*rules, key=None, notkey=None, file=None):
    """obligation predicate: rule id (exact, or prefix when it ends with '.'), substrings of the key, file suffix"""
    def pred(o):
        if rules and not any(o.rule == r or (r.endswith(".") and o.rule.startswith(r)) for r in rules):
            return False
        if key is not None and not any(k in o.key for k in key):
            return False
        if notkey is not None and any(k in o.key for k in notkey):
            return False
        if file is not None and not (o.file or "").endswith(file):
            return False
        return True
    pred.desc = "/".join(r.rstrip(".") + ("" if not r.endswith(".") else ".*") for r in rules) + \
        (" (%s side)" % {".py": "Python"}.get(file, file) if file else "") + (" [%s]" % "; ".join(key) if key else "")
    return pred


def either(*preds):
    f = lambda o: any(p(o) for p in preds)
    f.desc = ", ".join(p.desc for p in preds)
    return f


# "every protocol-valid message validates" - the direction of C13's iff that the forwarding path relies on
# (DATAInterface.send_msg drops what validate() refuses)
VALID_ACCEPTED = sel("C13.R1", key=("everything inside the protocol ranges validates", "is accepted at all"))
# "nothing outside the ranges validates" - the direction the encoders rely on (struct.pack / the PDU definitions)
INVALID_REFUSED = sel("C13.R1", key=("nothing outside the protocol ranges validates",))

PREREQUISITES = {
    "C02": [
        ("C12", "the recipients are the transceivers that are 'powered on': the running flag the forwarder tests has to follow the "
                "POWERON / POWEROFF commands (own, or the managing parent's) as C12 states", sel("C12.R2", "C12.R4", "C12.R8")),
        ("C07", "a hopping peer's frequency in frame FN is 'resolved through its own hopping sequence': the Python resolver has to "
                "follow the algorithm for every FN", sel("C07.", file=".py")),
        ("C19", "the hopping resolver is fed with (T1, T2, T3) of the frame number", sel("C19.R1", file=".py")),
        ("C13", "'one copy is delivered': the copy is an RxMsg that DATAInterface.send_msg drops when validate() refuses it",
         VALID_ACCEPTED),
        ("C10", "the copy handed to a recipient is made for the recipient's negotiated header version (on version 0 a suppressed "
                "burst delivers nothing at all)", sel("C10.R1")),
        ("C05", "the hopping parameters in force are the ones the peer sent: the control socket reads a SETFH of any legal length "
                "completely", sel("C05.R6", file=".py")),
    ],
    "C03": [
        ("C02", "'during the clock tick whose frame number equals FN': every clock tick has to reach every transceiver's "
                "clck_tick() with the tick's frame number", sel("C02.R3")),
        ("C09", "the tick with frame number FN exists: the clock counts every frame number, one by one, modulo the hyperframe",
         sel("C09.R1")),
        ("C12", "the clock generator runs as long as one transceiver is powered on", sel("C12.R3")),
        ("C13", "'put on the air' ends in DATAInterface.send_msg, which drops what validate() refuses", VALID_ACCEPTED),
        ("C12", "'power-off discards everything still queued' - of the transceivers the command addresses, not of others: every "
                "transceiver owns its child list and queue", sel("C12.R2", "C12.R8")),
        ("C02", "... and every list of transceivers is a list of its own", sel("C02.R5", "C02.R7")),
        ("C14", "'no burst ever vanishes': an exception that leaves the clock thread drops the bursts due in that tick and ends "
                "the clock for every transceiver", sel("C14.R11")),
        ("C10", "... in particular the per-recipient processing of a due burst of any length must complete",
         sel("C10.R3", key=("forwarded on a version-1 link",))),
    ],
    "C04": [
        ("C01", "C04 decides gen_msg() / parse_msg() against the layout one call at a time; that every call works on the message's "
                "own, current state (no stale memo of a version dependent length, no buffer shared between encodings, burst "
                "cleared for a header-only PDU, burst length taken from the datagram) is decided by C01's rules",
         sel("C01.R4", "C01.R5", "C01.R6", "C01.R7")),
        ("C10", "'every version-0 burst the toolkit sends towards L1': the version and the legacy padding of the datagram that "
                "leaves the socket are chosen on the forwarding path", sel("C10.R1")),
        ("C12", "... and the socket layer hands over exactly the encoded octets", sel("C12.R5", file="udp_link.py")),
    ],
    "C05": [
        ("C12", "POWERON / POWEROFF status and side effects; RXTUNE / TXTUNE values stay in force until the next RXTUNE / TXTUNE",
         sel("C12.R1", "C12.R2", "C12.R4", "C12.R6")),
        ("C02", "SETFH / RXTUNE / TXTUNE side effects: the received parameters become the configuration in use, in the received "
                "order, on the addressed transceiver only", sel("C02.R2", "C02.R5", "C02.R6", "C02.R8")),
        ("C07", "SETFH side effect: the transceiver then hops according to the received parameters", sel("C07.", file=".py")),
        ("C10", "SETTA / SETPOWER / FAKE_RSSI / FAKE_TOA / FAKE_CI side effects on the simulated radio metadata",
         sel("C10.R2", "C10.R5")),
        ("C18", "FAKE_DROP / RFMUTE side effects", sel("C18.R2")),
        ("C14", "'exactly one reply': no exception may escape the receive path before the reply is sent",
         sel("C14.R3", "C14.R4")),
        ("C20", "'SETFH carrying the longest mobile allocation trxcon can encode'", sel("C20.R5", "C20.R10", "C20.R15")),
    ],
    "C07": [
        ("C19", "both stacks feed the algorithm with T1 / T2 / T3 of the frame number - the firmware from its running GSM time",
         sel("C19.")),
        ("C02", "the mobile allocation is the list received with SETFH, in the received order, and it is the one in use; the "
                "channel is resolved for the frame number asked for", sel("C02.R2", "C02.R8")),
    ],
    "C09": [
        ("C12", "'while running': start() after stop() has to produce a ticking generator", sel("C12.R3", file="clck_gen.py")),
    ],
    "C10": [
        ("C01", "the sender's bits are taken from its datagram: burst length rule and ownership of the decoded burst",
         sel("C01.R5", "C01.R6", "C01.R7")),
        ("C04", "what the recipient's L1 observes is the datagram: the encoder has to follow the layout", sel("C04.R1")),
        ("C03", "'keeps the sender's frame number': the message that goes on the air is the one that was queued, unchanged",
         either(sel("C03.R3", key=("with their own frame number",)), sel("C03.R6"), sel("C03.R2", key=("everything queued stays as it was",)))),
        ("C05", "'uses the header version negotiated by the recipient'", sel("C05.R5", key=("SETFORMAT", "header version", "hdr_ver"))),
        ("C17", "'version 0 followed by the two legacy padding octets': the datagrams of the message codec, legacy-padded ones "
                "included, have the documented form for both burst lengths", sel("C17.R4")),
    ],
    "C12": [
        ("C03", "'POWEROFF also forgets all queued bursts' under every interleaving with the clock thread",
         sel("C03.R1", "C03.R5")),
        ("C14", "'the shared clock generator runs iff ...': nothing on the clock thread's path may raise", sel("C14.R11")),
        ("C09", "starting / stopping the shared clock generator takes effect", sel("C09.R3", "C09.R4")),
        ("C05", "every power command that is acknowledged was handed to the command handler with its verb intact (a reply replayed "
                "from a memory of earlier datagrams, or a verb cut short, acknowledges a command that was not executed)",
         sel("C05.R1", "C05.R2", key=("in a row", "POWERON", "POWEROFF"))),
    ],
    "C14": [
        ("C05", "'malformed control commands are answered with an error status or ignored, and the transceiver goes on serving'",
         sel("C05.R1", "C05.R3", "C05.R5", "C05.R7")),
        ("C15", "'or are found in a capture file'", sel("C15.R1", "C15.R2")),
        ("C04", "trxcon's TRXD receive path: length / range checks before use", sel("C04.R2", "C04.R3")),
        ("C03", "a datagram that is not taken must not be queued", sel("C03.R2")),
        ("C10", "a burst of any length taken from L1 is processed for every recipient without an exception leaving the clock thread",
         sel("C10.R3", key=("forwarded on a version-1 link",))),
        ("C13", "a field value that passes validate() must be encodable (struct.pack would raise inside the forwarding path)",
         either(INVALID_REFUSED, sel("C13.R2"))),
    ],
    "C15": [
        ("C01", "a capture record is the Msg.gen_msg() encoding, read back through parse_msg()", sel("C01.")),
        ("C13", "append_msg() encodes, and encoding validates first: every protocol-valid message has to be accepted",
         VALID_ACCEPTED),
        ("C14", "'reading returns ... without raising': nothing on the capture reader's path may raise", sel("C14.R5")),
    ],
    "C17": [
        ("C16", "the PDU definitions are compositions of the codec's building blocks", sel("C16.")),
        ("C13", "'every version-0/1 datagram produced by the message codec is accepted by the corresponding definition': the message "
                "codec must not produce datagrams outside the protocol ranges", INVALID_REFUSED),
        ("C01", "burst length / NOPE rules of the message codec that produces those datagrams", sel("C01.R5")),
    ],
    "C18": [
        ("C13", "the NOPE indication FakeTRX builds has to validate, else it is dropped instead of sent", VALID_ACCEPTED),
        ("C02", "the suppression marking is per recipient: every recipient gets a copy of its own; only a running recipient is "
                "handed a burst at all (a powered-off one emits no indication)", sel("C02.R1", "C02.R4")),
        ("C05", "every FAKE_DROP / RFMUTE command that is acknowledged was handed to the command handler", sel("C05.R1", key=("in a row",))),
    ],
    "C19": [
        ("C01", "the Python decomposition must not be served from a memo whose entries can be mutated", sel("C01.R7", file="gsm_shared.py")),
    ],
}
