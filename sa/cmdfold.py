# Folding of the TRXC command handler (CTRLInterfaceTRX.parse_cmd) for one command and one finite configuration
# of the transceiver flags it tests.  The handler is comparison-only decision code over (verb, argument count,
# integer arguments, a few boolean flags); its complete decision table per verb is obtained by evaluating the
# SOURCE with the checker's whitelisted evaluator (consteval.Ev): helper methods, verify_cmd and the header-version
# negotiation of the data interface are evaluated from their own source, calls that act on the transceiver are
# recorded instead of evaluated.  Nothing of the repository is executed by the Python runtime.

from report import AnalysisError
from consteval import Ev, Unknown, Raised, Opaque
from pyutil import params


class Fold:
    def __init__(self, ret, calls, env, raised=None):
        self.ret, self.calls, self.env, self.raised = ret, calls, env, raised

    def stores(self, prefix="self.trx."):
        return {k[len(prefix):]: v for k, v in self.env.items() if isinstance(k, str) and k.startswith(prefix)}


def _session(repo):
    """module-level / class-level containers of the toolkit live as long as the process: all command folds of one run share
    them (a command whose handling leaks into such state changes what a later witness command does - as in a real session)"""
    return repo.__dict__.setdefault("_cmdfold_session", {})


def fold_parse_cmd(repo, request, state=None, custom=None, hdr_ver=0, model_objects=False):
    """state: attribute values of the transceiver (running, ready, pwr_meas, ...); custom: what the
    transceiver-specific handler answers (None = unhandled)"""
    ci, pc = repo.need_method("ctrl_if_trx", "CTRLInterfaceTRX", "parse_cmd")
    REQ = params(pc)[1]
    dci = repo.need_class("data_if", "DATAInterface")
    dmod = dci.mod
    c1, setm = repo.find_method(dci, "set_hdr_ver")
    c2, pick = repo.find_method(dci, "pick_hdr_ver")
    if setm is None or pick is None:
        raise AnalysisError("DATAInterface.set_hdr_ver / pick_hdr_ver vanished")
    st = {"running": False, "ready": True, "pwr_meas": Opaque("pwr_meas"), "tx_power_base": 50, "tx_att_base": 0, "fh": None}
    st.update(state or {})
    env = {REQ: list(request), "self.trx.data_if._hdr_ver": hdr_ver}
    for k, v in st.items():
        env["self.trx." + k] = v
    # read-only properties of the transceiver that are functions of the modelled state (tx_power, ...)
    try:
        tci = repo.need_class("fake_trx", "FakeTRX")        # the concrete transceiver the toolkit instantiates
    except AnalysisError:
        tci = repo.need_class("transceiver", "Transceiver")
    for c_ in reversed(repo.mro(tci)):
        for nm_, m_ in c_.methods.items():
            if nm_ in st or not any(getattr(d_, "id", None) == "property" for d_ in m_.decorator_list):
                continue
            try:
                pe = Ev(repo, c_.mod, env={"self." + k: v for k, v in st.items()}, self_cls=tci)
                r_ = pe.run_block(m_.body)
                if isinstance(r_, tuple):
                    env["self.trx." + nm_] = r_[1]
            except (Unknown, Raised):
                pass
    calls = []
    dstate = {"self._hdr_ver": hdr_ver}

    def rec(name):
        def h(a, kw):
            calls.append((name, tuple(a), tuple(sorted(kw.items()))))
            return None
        h.wants_kw = True
        return h

    def set_ver(a):
        e = Ev(repo, dmod, env=dict(dstate), self_cls=dci)
        r = e.call_func(setm, dmod, e._bindargs(setm, ["<self>"] + list(a), {}), writeback=True)
        for k, v in e.env.items():
            if isinstance(k, str) and k.startswith("self."):
                dstate[k] = v
        calls.append(("set_hdr_ver", tuple(a), r))
        return r

    def pick_ver(a):
        e = Ev(repo, dmod, env=dict(dstate), self_cls=dci)
        return e.call_func(pick, dmod, e._bindargs(pick, ["<self>"] + list(a), {}))

    def measure(a):
        calls.append(("measure", tuple(a), ()))
        return -77
    e = Ev(repo, ci.mod, env=env, self_cls=ci)
    e.gstate = _session(repo)
    e.model_objects = model_objects

    def power(a, kw):
        # the transceiver's power event handler: recorded, and modelled by its one effect the command handler may
        # read back - the running flag takes the requested state (C12.R2 decides that from the handler's own source)
        calls.append(("power_event_handler", tuple(a), tuple(sorted(kw.items()))))
        on = a[0] if a else kw.get("poweron")
        if isinstance(on, bool):
            e.env["self.trx.running"] = on
        return None
    power.wants_kw = True
    e.hooks = {"self.trx.ctrl_cmd_handler": lambda a: custom,
               "self.trx.power_event_handler": power,
               "self.trx.enable_fh": rec("enable_fh"), "self.trx.disable_fh": rec("disable_fh"),
               "self.trx.tx_queue_clear": rec("tx_queue_clear"),
               "self.trx.data_if.set_hdr_ver": set_ver, "self.trx.data_if.pick_hdr_ver": pick_ver,
               "self.trx.pwr_meas.measure": measure}
    try:
        r = e.run_block(pc.body)
    except Unknown as ex:
        raise AnalysisError("parse_cmd does not fold for %s: %s" % (" ".join(request), ex))
    except Raised as ex:
        return Fold(None, calls, e.env, raised=ex.cls)
    ret = r[1] if isinstance(r, tuple) else "<falls off the end>"
    f = Fold(ret, calls, e.env)
    f.hdr_ver = dstate.get("self._hdr_ver")
    return f


FAKE_STATE = {
    "self.toa256_base": 0, "self.toa256_rand_threshold": 0, "self.rssi_base": -60, "self.rssi_rand_threshold": 0,
    "self.ci_base": 90, "self.ci_rand_threshold": 0, "self.burst_drop_amount": 0, "self.burst_drop_period": 1,
    "self.ta": 0, "self.rf_muted": False, "self.fake_rssi_enabled": False, "self.fake_toa_enabled": False,
    "self.fake_ci_enabled": False, "self.tx_att_base": 0, "self.tx_power_base": 50, "self.ctrl_if.rsp_delay_ms": 0,
    "self.running": False,
}


def fold_fake_cmd(repo, request, state=None):
    """FakeTRX.ctrl_cmd_handler folded for one command: Fold(ret, calls, env); ret None = not handled here"""
    ci, fd = repo.need_method("fake_trx", "FakeTRX", "ctrl_cmd_handler")
    REQ = params(fd)[1]
    cci, vfd = repo.need_method("ctrl_if", "CTRLInterface", "verify_cmd")
    env = dict(FAKE_STATE)
    env.update(state or {})
    before = dict(env)
    env[REQ] = list(request)
    calls = []

    def verify(a, kw):
        ev_ = Ev(repo, cci.mod, self_cls=cci)
        return ev_.call_func(vfd, cci.mod, ev_._bindargs(vfd, ["<self>"] + list(a), kw))
    verify.wants_kw = True

    def rec(name):
        def h(a, kw):
            calls.append((name, tuple(a), tuple(sorted(kw.items()))))
            return None
        h.wants_kw = True
        return h
    e = Ev(repo, ci.mod, env=env, self_cls=ci)
    e.gstate = _session(repo)
    e.hooks = {"self.ctrl_if.verify_cmd": verify, "self.tx_queue_clear": rec("tx_queue_clear"),
               "self.power_event_handler": rec("power_event_handler")}
    try:
        r = e.run_block(fd.body)
    except Unknown as ex:
        raise AnalysisError("FakeTRX.ctrl_cmd_handler does not fold for %s: %s" % (" ".join(request), ex))
    except Raised as ex:
        f = Fold(None, calls, e.env, raised=ex.cls)
        f.changed = {k: v for k, v in e.env.items() if isinstance(k, str) and k.startswith("self.") and before.get(k, "<unset>") != v}
        return f
    ret = r[1] if isinstance(r, tuple) else None
    f = Fold(ret, calls, e.env)
    f.changed = {k: v for k, v in e.env.items() if isinstance(k, str) and k.startswith("self.") and before.get(k, "<unset>") != v}
    return f


def accepted_forms(repo, verb, max_argc=8, arg="1"):
    """argument counts 0..max_argc for which `CMD <verb> <arg>...` is recognised (has an effect, a result or a
    non-zero status) by the transceiver-specific handler or the common one. -> (set of counts, {count: problem})"""
    ok, problems = set(), {}
    for argc in range(0, max_argc + 1):
        req = [verb] + [arg] * argc
        f = fold_fake_cmd(repo, req)
        if f.raised is not None:
            if f.raised in ("IndexError", "TypeError", "KeyError"):
                problems[argc] = "transceiver-specific handler raises %s" % f.raised
            ok.add(argc)
            continue
        if f.ret is not None or f.changed or f.calls:
            ok.add(argc)
            continue
        g = fold_parse_cmd(repo, req)
        if g.raised is not None:
            if g.raised in ("IndexError", "TypeError", "KeyError"):
                problems[argc] = "common handler raises %s" % g.raised
            ok.add(argc)
            continue
        base = fold_parse_cmd(repo, ["__NO_SUCH_VERB__"] + [arg] * argc)
        effect = g.calls or g.ret != base.ret or g.stores() != base.stores()
        if effect:
            ok.add(argc)
    return ok, problems


def fold_freq_getter(repo, meth):
    """Transceiver.get_rx_freq / get_tx_freq folded over their complete state space: the function reads the fixed
    frequencies (opaque values), the frame number (opaque) and the hopping configuration, which is either None or an
    object whose resolve() is recorded and answers an opaque (Rx, Tx) pair.  Helpers are evaluated from their own source.
    -> {"fixed": (ret, calls), "hopping": (ret, calls)} or None when the body does not fold."""
    ci, fd = repo.need_method("transceiver", "Transceiver", meth)
    ps = params(fd)
    if len(ps) != 2:
        return None
    out = {}
    for state in ("fixed", "hopping"):
        calls = []
        env = {ps[1]: Opaque("FN"), "self._rx_freq": Opaque("self._rx_freq"), "self._tx_freq": Opaque("self._tx_freq"),
               "self.fh": None if state == "fixed" else Opaque("self.fh")}
        e = Ev(repo, ci.mod, env=env, self_cls=ci)
        e.gstate = _session(repo)

        def res(a, calls=calls):
            calls.append(tuple(a))
            return (Opaque("RX@%r" % (tuple(a),)), Opaque("TX@%r" % (tuple(a),)))
        e.hooks = {"self.fh.resolve": res}
        try:
            r = e.run_block(fd.body)
        except (Unknown, Raised):
            return None
        out[state] = (r[1] if isinstance(r, tuple) else None, calls)
    return out


def sim_cmd_effects(L, repo, rule):
    """Accepted simulation commands store what was asked: the absolute forms set base and threshold, the relative
    forms ADD the (signed) delta to the base configured so far, SETTA stores the advance over its whole -128..127 range.
    FakeTRX.ctrl_cmd_handler is folded from a state in which every base differs from zero and from its default, so that
    `=`, `+=` and `=+` (or a clamp) give different results."""
    from pyutil import rel
    FF = rel("fake_trx")
    fn = "FakeTRX.ctrl_cmd_handler"
    L.fn(FF, fn)
    S0 = {"self.toa256_base": 100, "self.toa256_rand_threshold": 7, "self.rssi_base": -71, "self.rssi_rand_threshold": 3,
          "self.ci_base": 55, "self.ci_rand_threshold": 4, "self.ta": 2, "self.fake_rssi_enabled": False}
    cases = [
        (["SETTA", "5"], {"self.ta": 5}), (["SETTA", "0"], {"self.ta": 0}), (["SETTA", "63"], {"self.ta": 63}),
        (["SETTA", "-1"], {"self.ta": -1}), (["SETTA", "-128"], {"self.ta": -128}), (["SETTA", "127"], {"self.ta": 127}),
        (["FAKE_TOA", "50", "9"], {"self.toa256_base": 50, "self.toa256_rand_threshold": 9}),
        (["FAKE_TOA", "-300", "0"], {"self.toa256_base": -300, "self.toa256_rand_threshold": 0}),
        (["FAKE_TOA", "-20"], {"self.toa256_base": 80}), (["FAKE_TOA", "+20"], {"self.toa256_base": 120}),
        (["FAKE_TOA", "0"], {}),
        (["FAKE_RSSI", "-80", "2"], {"self.rssi_base": -80, "self.rssi_rand_threshold": 2, "self.fake_rssi_enabled": True}),
        (["FAKE_RSSI", "-5"], {"self.rssi_base": -76}), (["FAKE_RSSI", "6"], {"self.rssi_base": -65}),
        (["FAKE_CI", "30", "1"], {"self.ci_base": 30, "self.ci_rand_threshold": 1}),
        (["FAKE_CI", "-10"], {"self.ci_base": 45}), (["FAKE_CI", "10"], {"self.ci_base": 65}),
    ]
    n = 0
    for req, want in cases:
        f = fold_fake_cmd(repo, req, dict(S0))
        n += 1
        got = {k: v for k, v in f.changed.items() if k in S0 or k in want}
        status = f.ret[0] if isinstance(f.ret, tuple) else f.ret
        L.require(rule, FF, fn, "CMD %s from base ToA 100 / RSSI -71 / C/I 55 / TA 2: status and stored settings" % " ".join(req),
                  (0, want), ("raises %s" % f.raised if f.raised else status, got))
    L.floor(rule, "accepted simulation commands folded", n, 15)
