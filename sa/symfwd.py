# Forward substitution through straight-line code with if/else merged to
# conditional expressions (part of E7).  Produces, for a function body, the
# returned expression(s) written over the function's inputs only -- no values
# are computed; this is a syntactic normal form, not an execution.

import ast
from pyfront import clone as _clone
import copy

from report import AnalysisError
from pyfront import canon, _Subst, literals


def subst_expr(e, env):
    if not env:
        return e
    return ast.fix_missing_locations(_Subst(env).visit(_clone(e)))


class Fwd:
    def __init__(self, keep_attrs=False, split=False):
        self.split = split     # path-sensitive: no merging after if/else
        self.loopctl = []      # (path condition list, 'continue' | 'break')
        self.returns = []      # (path condition list, expr | None)
        self.raises = []       # (path condition list, class text)
        self.effects = []      # (path condition list, stmt text) for non-assignment statements
        self.ends = []         # split mode: (path condition list, env) of every path that falls off the end of the list
        self.keep_attrs = keep_attrs

    def run(self, stmts, env=None, conds=()):
        """returns env at fall-through (or None if every path left)"""
        env = dict(env or {})
        for i, st in enumerate(stmts):
            if isinstance(st, ast.Expr) and isinstance(st.value, ast.Constant):
                continue
            if isinstance(st, ast.Assign) and len(st.targets) == 1:
                t = st.targets[0]
                v = subst_expr(st.value, env)
                if isinstance(t, ast.Name):
                    env[t.id] = v
                elif isinstance(t, (ast.Tuple, ast.List)) and all(isinstance(x, ast.Name) for x in t.elts):
                    for i, x in enumerate(t.elts):
                        if isinstance(v, (ast.Tuple, ast.List)) and len(v.elts) == len(t.elts):
                            env[x.id] = v.elts[i]
                        else:
                            env[x.id] = ast.Subscript(value=v, slice=ast.Constant(value=i), ctx=ast.Load())
                else:
                    self.effects.append((list(conds), "%s = %s" % (canon(subst_expr(t, env)), canon(v))))
                continue
            if isinstance(st, ast.AugAssign) and isinstance(st.target, ast.Name):
                cur = env.get(st.target.id, ast.Name(id=st.target.id, ctx=ast.Load()))
                env[st.target.id] = ast.BinOp(left=cur, op=st.op, right=subst_expr(st.value, env))
                continue
            if isinstance(st, ast.AugAssign):
                # update of an attribute / item (a counter, ...): an effect, not a value of the normal form
                self.effects.append((list(conds), "%s %s= %s" % (canon(subst_expr(st.target, env)), type(st.op).__name__,
                                                                  canon(subst_expr(st.value, env)))))
                continue
            if isinstance(st, ast.If):
                test = subst_expr(st.test, env)
                # path conditions are recorded as normalised literals (text, polarity): `x is not None`
                # taken False and `x is None` taken True give the same entry
                ct_t = tuple(sorted(literals(test, True)))
                ct_f = tuple(sorted(literals(test, False)))
                if self.split:
                    rest = stmts[i + 1:]
                    self.run(list(st.body) + rest, env, tuple(conds) + ct_t)
                    self.run(list(st.orelse) + rest, env, tuple(conds) + ct_f)
                    return None
                e1 = self.run(st.body, env, tuple(conds) + ct_t)
                e2 = self.run(st.orelse, env, tuple(conds) + ct_f)
                if e1 is None and e2 is None:
                    return None
                if e1 is None:
                    env = e2
                elif e2 is None:
                    env = e1
                else:
                    merged = {}
                    for k in set(e1) | set(e2):
                        a = e1.get(k, ast.Name(id=k, ctx=ast.Load()))
                        b = e2.get(k, ast.Name(id=k, ctx=ast.Load()))
                        if ast.dump(a) == ast.dump(b):
                            merged[k] = a
                        else:
                            merged[k] = ast.IfExp(test=test, body=a, orelse=b)
                    env = merged
                continue
            if isinstance(st, ast.Return):
                self.returns.append((list(conds), subst_expr(st.value, env) if st.value is not None else None))
                return None
            if isinstance(st, ast.Raise):
                cls = "Exception"
                if st.exc is not None:
                    e = st.exc.func if isinstance(st.exc, ast.Call) else st.exc
                    cls = canon(e)
                self.raises.append((list(conds), cls))
                return None
            if isinstance(st, ast.Expr):
                self.effects.append((list(conds), canon(subst_expr(st.value, env))))
                continue
            if isinstance(st, (ast.Pass, ast.Assert, ast.Global, ast.Nonlocal)):
                continue
            if isinstance(st, ast.Delete):
                continue
            if isinstance(st, (ast.Continue, ast.Break)):
                self.loopctl.append((list(conds), "continue" if isinstance(st, ast.Continue) else "break"))
                return None
            raise AnalysisError("forward substitution: statement outside the vocabulary: %s" % canon(st)[:60])
        if self.split:
            self.ends.append((list(conds), dict(env)))
        return env


def flat_add(e):
    if isinstance(e, ast.BinOp) and isinstance(e.op, ast.Add):
        return flat_add(e.left) + flat_add(e.right)
    return [e]
