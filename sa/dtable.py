# Decision tables: exact abstract interpretation of branch structures whose
# conditions are boolean combinations of a *finite set of atoms*.  All truth
# assignments of the atoms are enumerated (powerset domain on a finite set);
# for each the statement list is walked and the executed "events" (calls,
# returns, stores) are recorded.  The result is the complete decision table,
# which rules compare with the specified one.

import ast
from pyfront import clone as _clone
import itertools

from report import AnalysisError
from pyfront import canon, literals


def atom_key(test, subst=None, norm=None):
    """Canonical (text, polarity) of an atomic condition."""
    lits = literals(test, True, subst)
    if len(lits) != 1:
        return None
    (t, p), = lits
    if norm:
        t, p = norm(t, p)
    return t, p


def default_norm(t, p):
    # len(x) > 0  ==  truthiness of x
    import re
    m = re.fullmatch(r"0 < len\((.+)\)", t)
    if m:
        return m.group(1), p
    m = re.fullmatch(r"0 == len\((.+)\)", t)
    if m:
        return m.group(1), not p
    m = re.fullmatch(r"len\((.+)\) == 0", t)
    if m:
        return m.group(1), not p
    m = re.fullmatch(r"len\((.+)\)", t)
    if m:
        return m.group(1), p
    return t, p


def collect_atoms(test, subst=None, norm=default_norm, out=None):
    out = out if out is not None else []
    if isinstance(test, ast.UnaryOp) and isinstance(test.op, ast.Not):
        return collect_atoms(test.operand, subst, norm, out)
    if isinstance(test, ast.BoolOp):
        for v in test.values:
            collect_atoms(v, subst, norm, out)
        return out
    if isinstance(test, ast.IfExp):
        for v in (test.test, test.body, test.orelse):
            collect_atoms(v, subst, norm, out)
        return out
    if isinstance(test, ast.Constant):
        return out
    k = atom_key(test, subst, norm)
    if k is None:
        raise AnalysisError("condition not atomic: %s" % canon(test))
    if k[0] not in out:
        out.append(k[0])
    return out


def eval_bool(test, assign, subst=None, norm=default_norm, on_atom=None):
    """short-circuit evaluation; on_atom(text) is called for every atom actually evaluated"""
    if isinstance(test, ast.UnaryOp) and isinstance(test.op, ast.Not):
        return not eval_bool(test.operand, assign, subst, norm, on_atom)
    if isinstance(test, ast.BoolOp):
        vals = (eval_bool(v, assign, subst, norm, on_atom) for v in test.values)
        return all(vals) if isinstance(test.op, ast.And) else any(vals)
    if isinstance(test, ast.IfExp):
        c = eval_bool(test.test, assign, subst, norm, on_atom)
        return eval_bool(test.body if c else test.orelse, assign, subst, norm, on_atom)
    if isinstance(test, ast.Constant):
        return bool(test.value)
    t, p = atom_key(test, subst, norm)
    if t not in assign:
        raise AnalysisError("atom `%s` not in the decision table's atom set" % t)
    if on_atom is not None:
        on_atom(t)
    return assign[t] == p


def try_atom(st):
    return "raises: " + "; ".join(canon(x)[:60] for x in st.body[:2])


def _is_boolish(e):
    """expression that denotes a truth value computed from conditions (not a plain data value)"""
    if isinstance(e, ast.Constant):
        return isinstance(e.value, bool)
    if isinstance(e, ast.BoolOp):
        return True
    if isinstance(e, ast.UnaryOp) and isinstance(e.op, ast.Not):
        return True
    if isinstance(e, ast.Compare):
        return True
    if isinstance(e, ast.IfExp):
        return _is_boolish(e.body) and _is_boolish(e.orelse)
    return False


def _pure_value(e):
    """value that can be substituted for a local without duplicating or moving an effect"""
    if isinstance(e, (ast.Constant, ast.Name)):
        return True
    if isinstance(e, ast.Attribute):
        return _pure_value(e.value)
    if isinstance(e, ast.UnaryOp):
        return _pure_value(e.operand)
    if isinstance(e, ast.Subscript):
        return _pure_value(e.value) and _pure_value(e.slice)
    if isinstance(e, (ast.Tuple, ast.List)):
        return all(_pure_value(x) for x in e.elts)
    if isinstance(e, ast.IfExp):
        return _pure_value(e.body) and _pure_value(e.orelse)
    if isinstance(e, ast.BinOp):
        return _pure_value(e.left) and _pure_value(e.right)
    if isinstance(e, ast.Compare):
        return _pure_value(e.left) and all(_pure_value(c) for c in e.comparators)
    return False


def derived_flags(stmts):
    """local names that are only ever assigned truth-valued expressions inside
    `stmts` (flags such as `drop = False ... drop = True`, `missing = a or b`)"""
    vals = {}
    for st in stmts:
        for n in ast.walk(st):
            if isinstance(n, ast.Assign) and len(n.targets) == 1 and isinstance(n.targets[0], ast.Name):
                vals.setdefault(n.targets[0].id, []).append(n.value)
            elif isinstance(n, ast.Name) and isinstance(n.ctx, ast.Store) and not isinstance(getattr(n, "_parent", None), ast.Assign):
                vals.setdefault(n.id, []).append(None)
    return {k for k, vs in vals.items() if all(v is not None and _is_boolish(v) for v in vs)}


class Walker:
    """Walks a statement list under a truth assignment.

    event(stmt) -> hashable | None : classify a simple statement
    Compound statements other than If end the walk with AnalysisError unless
    `opaque` says they are irrelevant."""

    def __init__(self, event, subst=None, norm=default_norm, loops="body", update=None, on_atom=None):
        self.on_atom = on_atom
        self.flags = set()       # derived boolean locals (set by table())
        self.locals = {}         # path-sensitive values of plain locals (name -> AST), substituted into events
        self.event = event
        self.update = update      # update(stmt, assign): a statement may change an atom's value
        self.subst = subst
        self.norm = norm
        self.loops = loops

    def atoms(self, stmts, out=None):
        top = out is None
        if top:
            self.flags = derived_flags(stmts)
        out = out if out is not None else []
        for st in stmts:
            if isinstance(st, ast.Assign) and len(st.targets) == 1 and isinstance(st.targets[0], ast.Name) \
                    and st.targets[0].id in self.flags:
                collect_atoms(st.value, self.subst, self.norm, out)
            if isinstance(st, ast.If):
                collect_atoms(st.test, self.subst, self.norm, out)
                self.atoms(st.body, out)
                self.atoms(st.orelse, out)
            elif isinstance(st, (ast.For, ast.While)) and self.loops == "body":
                self.atoms(st.body, out)
            elif isinstance(st, ast.With):
                self.atoms(st.body, out)
            elif isinstance(st, ast.Try):
                k = try_atom(st)
                if k not in out:
                    out.append(k)
                self.atoms(st.body, out)
                for h in st.handlers:
                    self.atoms(h.body, out)
                self.atoms(st.orelse, out)
                self.atoms(st.finalbody, out)
        if top:
            for f in self.flags:
                while f in out:
                    out.remove(f)
        return out

    def walk(self, stmts, assign, events):
        """returns 'ret' if a return/raise ended the walk"""
        for st in stmts:
            if isinstance(st, ast.If):
                v = eval_bool(st.test, assign, self.subst, self.norm, self.on_atom)
                r = self.walk(st.body if v else st.orelse, assign, events)
                if r:
                    return r
            elif isinstance(st, (ast.For,)) and self.loops == "body":
                # one symbolic iteration
                r = self.walk(st.body, assign, events)
                if r == "ret":
                    return r
            elif isinstance(st, ast.With):
                r = self.walk(st.body, assign, events)
                if r:
                    return r
            elif isinstance(st, ast.Try):
                # oracle atom: does the protected region raise (a class the
                # first handler catches)?  Partial effects of the body on the
                # exceptional path are not modelled: bodies must be simple.
                if assign[try_atom(st)]:
                    if not st.handlers:
                        raise AnalysisError("try without handler")
                    events.append(("exc", try_atom(st)))
                    r = self.walk(st.handlers[0].body, assign, events)
                else:
                    r = self.walk(st.body, assign, events)
                    if not r:
                        r = self.walk(st.orelse, assign, events)
                if st.finalbody:
                    r2 = self.walk(st.finalbody, assign, events)
                    r = r or r2
                if r:
                    return r
            elif isinstance(st, (ast.While, ast.For)):
                raise AnalysisError("decision table: compound statement unclassifiable: %s" % canon(st)[:50])
            elif isinstance(st, ast.Return):
                e = self.event(self._subst_stmt(st, assign))
                if e is not None:
                    events.append(e)
                return "ret"
            elif isinstance(st, ast.Raise):
                e = self.event(st)
                events.append(e if e is not None else ("raise", canon(st)[:40]))
                return "ret"
            elif isinstance(st, (ast.Continue, ast.Break)):
                return "loop"
            elif isinstance(st, (ast.Assert, ast.Pass, ast.Global, ast.Nonlocal, ast.Import, ast.ImportFrom)):
                continue      # defensive assertions and declarations are not effects
            else:
                if isinstance(st, ast.Assign) and len(st.targets) == 1 and isinstance(st.targets[0], ast.Name):
                    nm = st.targets[0].id
                    if nm in self.flags:
                        assign[nm] = bool(eval_bool(st.value, assign, self.subst, self.norm, self.on_atom))
                        continue
                    # plain local with a pure value: remember it (substituted) for later events on this path
                    if _pure_value(st.value):
                        self.locals[nm] = self._subst(st.value)
                        if self.update is not None:
                            self.update(st, assign)
                        continue
                    self.locals.pop(nm, None)
                if isinstance(st, ast.Assign) and len(st.targets) == 1 and isinstance(st.targets[0], (ast.Tuple, ast.List)) \
                        and all(isinstance(x, ast.Name) for x in st.targets[0].elts):
                    v = self._subst(st.value)
                    if not _pure_value(st.value):
                        for x in st.targets[0].elts:
                            self.locals.pop(x.id, None)
                        if self.update is not None:
                            self.update(st, assign)
                        e = self.event(self._subst_stmt(st, assign))
                        if e is not None:
                            events.append(e)
                        continue
                    for i, x in enumerate(st.targets[0].elts):
                        if isinstance(v, (ast.Tuple, ast.List)) and len(v.elts) == len(st.targets[0].elts):
                            self.locals[x.id] = v.elts[i]
                        elif isinstance(v, ast.IfExp) and all(isinstance(b, (ast.Tuple, ast.List)) and len(b.elts) == len(st.targets[0].elts)
                                                             for b in (v.body, v.orelse)):
                            self.locals[x.id] = ast.IfExp(test=v.test, body=v.body.elts[i], orelse=v.orelse.elts[i])
                        else:
                            self.locals[x.id] = ast.Subscript(value=v, slice=ast.Constant(value=i), ctx=ast.Load())
                    continue
                if self.update is not None:
                    self.update(st, assign)
                e = self.event(self._subst_stmt(st, assign))
                if e is not None:
                    events.append(e)
        return None

    def _subst(self, e):
        if not self.locals:
            return e
        import copy
        from pyfront import _Subst
        return ast.fix_missing_locations(_Subst(dict(self.locals)).visit(_clone(e)))

    def _resolve_ifexp(self, e, assign):
        """replace conditional expressions whose test is decided by the current row"""
        me = self

        class T(ast.NodeTransformer):
            def visit_IfExp(self, n):
                self.generic_visit(n)
                try:
                    c = eval_bool(n.test, assign, me.subst, me.norm)
                except AnalysisError:
                    return n
                return n.body if c else n.orelse
        import copy
        return ast.fix_missing_locations(T().visit(_clone(e)))

    def _subst_stmt(self, st, assign):
        if not self.locals and not any(isinstance(n, ast.IfExp) for n in ast.walk(st)):
            return st
        import copy
        from pyfront import _Subst
        new = _Subst(dict(self.locals)).visit(_clone(st)) if self.locals else _clone(st)
        new = self._resolve_ifexp(new, assign)
        ast.fix_missing_locations(new)
        for a in ("lineno", "col_offset"):
            if hasattr(st, a):
                setattr(new, a, getattr(st, a))
        new._parent = getattr(st, "_parent", None)
        return new

    def table(self, stmts, atoms=None):
        if atoms is None:
            atoms = self.atoms(stmts)
        elif not self.flags:
            self.flags = derived_flags(stmts)
            atoms = [a for a in atoms if a not in self.flags]
        if len(atoms) > 12:
            raise AnalysisError("decision table too large (%d atoms)" % len(atoms))
        rows = {}
        for vals in itertools.product([False, True], repeat=len(atoms)):
            assign = dict(zip(atoms, vals))
            ev = []
            self.locals = {}
            self.walk(stmts, dict(assign), ev)
            rows[vals] = tuple(ev)
        return atoms, rows
