# Decision tables: exact abstract interpretation of branch structures whose
# conditions are boolean combinations of a *finite set of atoms*.  All truth
# assignments of the atoms are enumerated (powerset domain on a finite set);
# for each the statement list is walked and the executed "events" (calls,
# returns, stores) are recorded.  The result is the complete decision table,
# which rules compare with the specified one.

import ast
import itertools

from report import AnalysisError
from pyfront import canon, literals


def atom_key(test, subst=None, norm=None):
    """Canonical (text, polarity) of an atomic condition."""
    lits = literals(test, True, subst)
    if len(lits) != 1:
        return None
    (t, p), = lits
    if norm:
        t, p = norm(t, p)
    return t, p


def default_norm(t, p):
    # len(x) > 0  ==  truthiness of x
    import re
    m = re.fullmatch(r"0 < len\((.+)\)", t)
    if m:
        return m.group(1), p
    m = re.fullmatch(r"0 == len\((.+)\)", t)
    if m:
        return m.group(1), not p
    m = re.fullmatch(r"len\((.+)\) == 0", t)
    if m:
        return m.group(1), not p
    m = re.fullmatch(r"len\((.+)\)", t)
    if m:
        return m.group(1), p
    return t, p


def collect_atoms(test, subst=None, norm=default_norm, out=None):
    out = out if out is not None else []
    if isinstance(test, ast.UnaryOp) and isinstance(test.op, ast.Not):
        return collect_atoms(test.operand, subst, norm, out)
    if isinstance(test, ast.BoolOp):
        for v in test.values:
            collect_atoms(v, subst, norm, out)
        return out
    if isinstance(test, ast.IfExp):
        for v in (test.test, test.body, test.orelse):
            collect_atoms(v, subst, norm, out)
        return out
    if isinstance(test, ast.Constant):
        return out
    k = atom_key(test, subst, norm)
    if k is None:
        raise AnalysisError("condition not atomic: %s" % canon(test))
    if k[0] not in out:
        out.append(k[0])
    return out


def eval_bool(test, assign, subst=None, norm=default_norm, on_atom=None):
    """short-circuit evaluation; on_atom(text) is called for every atom actually evaluated"""
    if isinstance(test, ast.UnaryOp) and isinstance(test.op, ast.Not):
        return not eval_bool(test.operand, assign, subst, norm, on_atom)
    if isinstance(test, ast.BoolOp):
        vals = (eval_bool(v, assign, subst, norm, on_atom) for v in test.values)
        return all(vals) if isinstance(test.op, ast.And) else any(vals)
    if isinstance(test, ast.IfExp):
        c = eval_bool(test.test, assign, subst, norm, on_atom)
        return eval_bool(test.body if c else test.orelse, assign, subst, norm, on_atom)
    if isinstance(test, ast.Constant):
        return bool(test.value)
    t, p = atom_key(test, subst, norm)
    if t not in assign:
        raise AnalysisError("atom `%s` not in the decision table's atom set" % t)
    if on_atom is not None:
        on_atom(t)
    return assign[t] == p


def try_atom(st):
    return "raises: " + "; ".join(canon(x)[:60] for x in st.body[:2])


class Walker:
    """Walks a statement list under a truth assignment.

    event(stmt) -> hashable | None : classify a simple statement
    Compound statements other than If end the walk with AnalysisError unless
    `opaque` says they are irrelevant."""

    def __init__(self, event, subst=None, norm=default_norm, loops="body", update=None, on_atom=None):
        self.on_atom = on_atom
        self.event = event
        self.update = update      # update(stmt, assign): a statement may change an atom's value
        self.subst = subst
        self.norm = norm
        self.loops = loops

    def atoms(self, stmts, out=None):
        out = out if out is not None else []
        for st in stmts:
            if isinstance(st, ast.If):
                collect_atoms(st.test, self.subst, self.norm, out)
                self.atoms(st.body, out)
                self.atoms(st.orelse, out)
            elif isinstance(st, (ast.For, ast.While)) and self.loops == "body":
                self.atoms(st.body, out)
            elif isinstance(st, ast.With):
                self.atoms(st.body, out)
            elif isinstance(st, ast.Try):
                k = try_atom(st)
                if k not in out:
                    out.append(k)
                self.atoms(st.body, out)
                for h in st.handlers:
                    self.atoms(h.body, out)
                self.atoms(st.orelse, out)
                self.atoms(st.finalbody, out)
        return out

    def walk(self, stmts, assign, events):
        """returns 'ret' if a return/raise ended the walk"""
        for st in stmts:
            if isinstance(st, ast.If):
                v = eval_bool(st.test, assign, self.subst, self.norm, self.on_atom)
                r = self.walk(st.body if v else st.orelse, assign, events)
                if r:
                    return r
            elif isinstance(st, (ast.For,)) and self.loops == "body":
                # one symbolic iteration
                r = self.walk(st.body, assign, events)
                if r == "ret":
                    return r
            elif isinstance(st, ast.With):
                r = self.walk(st.body, assign, events)
                if r:
                    return r
            elif isinstance(st, ast.Try):
                # oracle atom: does the protected region raise (a class the
                # first handler catches)?  Partial effects of the body on the
                # exceptional path are not modelled: bodies must be simple.
                if assign[try_atom(st)]:
                    if not st.handlers:
                        raise AnalysisError("try without handler")
                    events.append(("exc", try_atom(st)))
                    r = self.walk(st.handlers[0].body, assign, events)
                else:
                    r = self.walk(st.body, assign, events)
                    if not r:
                        r = self.walk(st.orelse, assign, events)
                if st.finalbody:
                    r2 = self.walk(st.finalbody, assign, events)
                    r = r or r2
                if r:
                    return r
            elif isinstance(st, (ast.While, ast.For)):
                raise AnalysisError("decision table: compound statement unclassifiable: %s" % canon(st)[:50])
            elif isinstance(st, ast.Return):
                e = self.event(st)
                if e is not None:
                    events.append(e)
                return "ret"
            elif isinstance(st, ast.Raise):
                e = self.event(st)
                events.append(e if e is not None else ("raise", canon(st)[:40]))
                return "ret"
            elif isinstance(st, (ast.Continue, ast.Break)):
                return "loop"
            else:
                if self.update is not None:
                    self.update(st, assign)
                e = self.event(st)
                if e is not None:
                    events.append(e)
        return None

    def table(self, stmts, atoms=None):
        atoms = atoms if atoms is not None else self.atoms(stmts)
        if len(atoms) > 12:
            raise AnalysisError("decision table too large (%d atoms)" % len(atoms))
        rows = {}
        for vals in itertools.product([False, True], repeat=len(atoms)):
            assign = dict(zip(atoms, vals))
            ev = []
            self.walk(stmts, dict(assign), ev)
            rows[vals] = tuple(ev)
        return atoms, rows
