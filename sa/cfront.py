# E2 / E10 -- C front end on top of `clang -fsyntax-only -Xclang -ast-dump=json`.
# The translation units are parsed with the include paths of their real
# build plus analysis-only stub headers (/verif/cstubs); nothing is compiled
# to code or run.  Provides: TU index (functions, variables, enums, records,
# macros-as-expanded), line numbers, canonical expression text, constant
# folding of integer constant expressions / initialisers, a statement CFG
# with the same query interface as the Python one, guard literals, and
# lowering to the shared expression normal form.

import json
import os
import re
import subprocess
import tempfile

from report import AnalysisError, VERIF
from pyfront import CFG, Node
import exprnf as X

CLANG = "clang"
RES = "/usr/lib/llvm-14/lib/clang/14.0.6/include"

KINDS = {
    "fw": {
        "cwd": "src/target/firmware",
        "flags": ["--target=arm-none-eabi", "-mcpu=arm7tdmi", "-ffreestanding", "-nostdinc",
                  "-isystem", RES, "-Iinclude", "-I../../../include",
                  "-I../../shared/libosmocore/include", "-I%s/cstubs/fw" % VERIF],
    },
    "trxcon": {
        "cwd": "src/host/trxcon",
        "flags": ["-Iinclude", "-I../../shared/libosmocore/include", "-I../../../include",
                  "-I%s/cstubs/host" % VERIF, "-include", "%s/cstubs/host/compat.h" % VERIF],
    },
    "libosmo": {
        "cwd": "src/shared/libosmocore",
        "flags": ["-Iinclude", "-I%s/cstubs/libosmo/a/b" % VERIF],
    },
    "osmocon": {
        "cwd": "src/host/osmocon",
        "flags": ["-DHOST_BUILD", "-I../../target/firmware/include/comm",
                  "-I../../shared/libosmocore/include", "-DOSMO_FD_READ=1", "-DOSMO_FD_WRITE=2"],
    },
    "plain": {"cwd": ".", "flags": []},
}


def _resdir():
    if os.path.isdir(RES):
        return RES
    try:
        out = subprocess.run([CLANG, "-print-resource-dir"], stdout=subprocess.PIPE, text=True).stdout.strip()
        return os.path.join(out, "include")
    except OSError:
        raise AnalysisError("clang not found")


def run_clang(root, kind, relfile, defines=(), extra_flags=(), L=None, abs_file=None):
    k = KINDS[kind]
    cwd = os.path.join(root, k["cwd"])
    flags = [f.replace(RES, _resdir()) for f in k["flags"]]
    src = abs_file or relfile
    cmd = [CLANG] + flags + ["-D%s" % d for d in defines] + list(extra_flags) + \
          ["-fsyntax-only", "-Wno-everything", "-Xclang", "-ast-dump=json", src]
    if L is not None:
        L.cmds.append("(cd %s && %s)" % (k["cwd"], " ".join(cmd)))
    try:
        p = subprocess.run(cmd, cwd=cwd, stdout=subprocess.PIPE, stderr=subprocess.PIPE, timeout=300)
    except OSError as e:
        raise AnalysisError("cannot run clang: %s" % e)
    err = p.stderr.decode("utf-8", "replace")
    if p.returncode != 0 or re.search(r"\berror:", err):
        first = [l for l in err.splitlines() if "error" in l][:3]
        raise AnalysisError("clang cannot parse %s (%s): %s" % (relfile, kind, " | ".join(first)))
    try:
        return json.loads(p.stdout)
    except ValueError as e:
        raise AnalysisError("clang AST of %s is not JSON: %s" % (relfile, e))


# ------------------------------------------------------------------ nodes

def kids(n):
    return [c for c in n.get("inner", []) if c]


def kind(n):
    return n.get("kind")


SKIP = ("ImplicitCastExpr", "ParenExpr", "ConstantExpr")


def strip(n, casts=False):
    """Skip implicit casts, parentheses and ConstantExpr wrappers (and,
    optionally, explicit C casts)."""
    while n is not None and (kind(n) in SKIP or (casts and kind(n) == "CStyleCastExpr")):
        ks = kids(n)
        if not ks:
            break
        n = ks[0]
    return n


def walk(n):
    stack = [n]
    while stack:
        x = stack.pop()
        yield x
        stack.extend(reversed(kids(x)))


class TU:
    def __init__(self, root, kindname, relfile, defines=(), L=None, abs_file=None, extra_flags=()):
        self.root = root
        self.kind = kindname
        self.rel = os.path.normpath(os.path.join(KINDS[kindname]["cwd"], relfile)) if abs_file is None else relfile
        if L is not None and abs_file is None:
            L.unit(self.rel)
        self.ast = run_clang(root, kindname, relfile, defines, extra_flags, L, abs_file)
        self.functions = {}
        self.vars = {}
        self.enums = {}        # enumerator -> int
        self.enum_of = {}      # enumerator -> enum name
        self.records = {}
        self.typedefs = {}
        self.by_id = {}
        self.parent = {}
        self._index()

    def _index(self):
        line = [None]
        file = [None]
        main = os.path.basename(self.rel)

        def upd(l):
            """process one printed source location (clang prints file/line
            only when they differ from the previously printed location)"""
            if not l:
                return False
            subs = [l.get("spellingLoc"), l.get("expansionLoc")] if \
                ("spellingLoc" in l or "expansionLoc" in l) else [l]
            seen = False
            for sub in subs:
                if not sub:
                    continue
                seen = True
                if "file" in sub:
                    file[0] = sub["file"]
                if "line" in sub:
                    line[0] = sub["line"]
            return seen

        def visit(n, parent):
            if not isinstance(n, dict):
                return
            got = upd(n.get("loc"))
            if got:
                n["_line"], n["_file"] = line[0], file[0]
            rng = n.get("range") or {}
            if upd(rng.get("begin")) and not got:
                n["_line"], n["_file"] = line[0], file[0]
                got = True
            if not got:
                n["_line"], n["_file"] = line[0], file[0]
            upd(rng.get("end"))
            if "id" in n:
                self.by_id[n["id"]] = n
            self.parent[id(n)] = parent
            for c in n.get("inner", []) or []:
                visit(c, n)

        import sys
        sys.setrecursionlimit(max(sys.getrecursionlimit(), 20000))
        visit(self.ast, None)
        for d in kids(self.ast):
            self._index_decl(d)

    def _index_decl(self, d):
        k = kind(d)
        name = d.get("name")
        if k == "FunctionDecl":
            has_body = any(kind(c) == "CompoundStmt" for c in kids(d))
            if has_body or name not in self.functions:
                self.functions[name] = d
        elif k == "VarDecl":
            if name not in self.vars or any(kind(c) not in ("", None) for c in kids(d)):
                if name not in self.vars or kids(d):
                    self.vars[name] = d
        elif k == "EnumDecl":
            val = -1
            for c in kids(d):
                if kind(c) == "EnumConstantDecl":
                    ks = kids(c)
                    if ks:
                        val = self.fold(ks[0])
                    else:
                        val += 1
                    self.enums[c["name"]] = val
                    self.enum_of[c["name"]] = name or "<anon>"
        elif k == "RecordDecl":
            if name and kids(d):
                self.records[name] = d
        elif k == "TypedefDecl":
            self.typedefs[name] = d

    # -- lookups ----------------------------------------------------------
    def func(self, name):
        f = self.functions.get(name)
        if f is None or not any(kind(c) == "CompoundStmt" for c in kids(f)):
            raise AnalysisError("anchor function %s() vanished from %s" % (name, self.rel))
        return f

    def body(self, f):
        for c in kids(f):
            if kind(c) == "CompoundStmt":
                return c
        raise AnalysisError("function without body")

    def fparams(self, f):
        return [c for c in kids(f) if kind(c) == "ParmVarDecl"]

    def var(self, name):
        v = self.vars.get(name)
        if v is None:
            raise AnalysisError("anchor variable %s vanished from %s" % (name, self.rel))
        return v

    def line(self, n):
        return n.get("_line")

    # -- constant folding --------------------------------------------------
    def fold(self, n):
        """Value of an integer constant expression (None if not constant)."""
        n = strip(n)
        if n is None:
            return None
        k = kind(n)
        if k == "IntegerLiteral":
            return int(n["value"])
        if k == "CharacterLiteral":
            return int(n["value"])
        if k == "DeclRefExpr":
            rd = n.get("referencedDecl", {})
            if rd.get("kind") == "EnumConstantDecl":
                return self.enums.get(rd.get("name"))
            if rd.get("kind") == "VarDecl":
                v = self.by_id.get(rd.get("id"))
                if v is not None and "const" in v.get("type", {}).get("qualType", "") and kids(v):
                    return self.fold(kids(v)[-1])
            return None
        if k == "CStyleCastExpr":
            v = self.fold(kids(n)[0])
            if v is None:
                return None
            return wrap_int(v, n.get("type", {}).get("qualType", ""))
        if k == "UnaryOperator":
            v = self.fold(kids(n)[0])
            if v is None:
                return None
            op = n.get("opcode")
            if op == "-":
                return -v
            if op == "+":
                return v
            if op == "~":
                return ~v
            if op == "!":
                return int(not v)
            return None
        if k == "BinaryOperator":
            a, b = kids(n)
            op = n.get("opcode")
            # ARRAY_SIZE(x) = sizeof(x) / sizeof(x[0])
            if op == "/":
                sa, sb = strip(a), strip(b)
                if kind(sa) == kind(sb) == "UnaryExprOrTypeTraitExpr":
                    ext = array_extent(sizeof_operand_type(sa))
                    if ext is not None:
                        return ext
            va, vb = self.fold(a), self.fold(b)
            if va is None or vb is None:
                return None
            try:
                return {
                    "+": lambda: va + vb, "-": lambda: va - vb, "*": lambda: va * vb,
                    "/": lambda: int(va / vb) if vb else None, "%": lambda: va - vb * int(va / vb) if vb else None,
                    "<<": lambda: va << vb, ">>": lambda: va >> vb, "&": lambda: va & vb,
                    "|": lambda: va | vb, "^": lambda: va ^ vb,
                    "<": lambda: int(va < vb), ">": lambda: int(va > vb), "<=": lambda: int(va <= vb),
                    ">=": lambda: int(va >= vb), "==": lambda: int(va == vb), "!=": lambda: int(va != vb),
                    "&&": lambda: int(bool(va) and bool(vb)), "||": lambda: int(bool(va) or bool(vb)),
                }[op]()
            except KeyError:
                return None
        if k == "ConditionalOperator":
            c, a, b = kids(n)
            vc = self.fold(c)
            if vc is None:
                return None
            return self.fold(a if vc else b)
        if k == "UnaryExprOrTypeTraitExpr" and n.get("name") == "sizeof":
            t = sizeof_operand_type(n)
            return type_size(t)
        return None

    def init_value(self, n):
        """Python value of an initialiser: nested lists for InitListExpr,
        ints for constants, ('ref', name) for &x / x references, None for
        implicit zero."""
        n = strip(n)
        k = kind(n)
        if k == "InitListExpr":
            return [self.init_value(c) for c in kids(n)]
        if k == "ImplicitValueInitExpr":
            return None
        if k == "StringLiteral":
            return n.get("value")
        v = self.fold(n)
        if v is not None:
            return v
        if k == "UnaryOperator" and n.get("opcode") == "&":
            return ("ref", ctext(kids(n)[0]))
        if k == "DeclRefExpr":
            return ("ref", n.get("referencedDecl", {}).get("name"))
        if k == "CStyleCastExpr":
            return self.init_value(kids(n)[0])
        return ("expr", ctext(n))

    def record_fields(self, name):
        r = self.records.get(name)
        if r is None:
            raise AnalysisError("struct %s not found" % name)
        return [(c.get("name"), c.get("type", {}).get("qualType")) for c in kids(r) if kind(c) == "FieldDecl"]


def wrap_int(v, qt):
    qt = qt.replace("const ", "").strip()
    m = {"int8_t": (8, True), "uint8_t": (8, False), "int16_t": (16, True), "uint16_t": (16, False),
         "int32_t": (32, True), "uint32_t": (32, False), "signed char": (8, True), "unsigned char": (8, False),
         "char": (8, True), "short": (16, True), "unsigned short": (16, False), "int": (32, True),
         "unsigned int": (32, False), "sbit_t": (8, True), "ubit_t": (8, False)}.get(qt)
    if m is None:
        return v
    bits, signed = m
    v &= (1 << bits) - 1
    if signed and v >= 1 << (bits - 1):
        v -= 1 << bits
    return v


def sizeof_operand_type(n):
    if "argType" in n:
        return n["argType"].get("qualType")
    ks = kids(n)
    if ks:
        return strip(ks[0]).get("type", {}).get("qualType")
    return None


def array_extent(qt):
    if not qt:
        return None
    m = re.search(r"\[(\d+)\]", qt)
    return int(m.group(1)) if m else None


_SIZES = {"char": 1, "signed char": 1, "unsigned char": 1, "uint8_t": 1, "int8_t": 1, "short": 2,
          "unsigned short": 2, "uint16_t": 2, "int16_t": 2, "int": 4, "unsigned int": 4, "uint32_t": 4,
          "int32_t": 4, "sbit_t": 1, "ubit_t": 1}


def type_size(qt):
    if not qt:
        return None
    qt = qt.replace("const ", "").strip()
    m = re.fullmatch(r"(.+?)\s*((?:\[\d+\])+)", qt)
    if m:
        base = _SIZES.get(m.group(1).strip())
        if base is None:
            return None
        for d in re.findall(r"\[(\d+)\]", m.group(2)):
            base *= int(d)
        return base
    return _SIZES.get(qt)


# ------------------------------------------------------- expression text

def ctext(n):
    """Canonical C text of an expression (implicit casts and parentheses
    dropped, explicit casts kept)."""
    n = strip(n)
    if n is None:
        return "?"
    k = kind(n)
    ks = kids(n)
    if k == "IntegerLiteral":
        return str(int(n["value"]))
    if k == "CharacterLiteral":
        return str(int(n["value"]))
    if k == "StringLiteral":
        return n.get("value", '""')
    if k == "DeclRefExpr":
        return n.get("referencedDecl", {}).get("name", "?")
    if k == "MemberExpr":
        return "%s%s%s" % (ctext(ks[0]), "->" if n.get("isArrow") else ".", n.get("name"))
    if k == "ArraySubscriptExpr":
        return "%s[%s]" % (ctext(ks[0]), ctext(ks[1]))
    if k in ("BinaryOperator", "CompoundAssignOperator"):
        return "(%s %s %s)" % (ctext(ks[0]), n.get("opcode"), ctext(ks[1]))
    if k == "UnaryOperator":
        op = n.get("opcode")
        if n.get("isPostfix"):
            return "%s%s" % (ctext(ks[0]), op)
        return "%s%s" % (op, ctext(ks[0]))
    if k == "CallExpr":
        return "%s(%s)" % (ctext(ks[0]), ", ".join(ctext(a) for a in ks[1:]))
    if k == "CStyleCastExpr":
        return "(%s)%s" % (n.get("type", {}).get("qualType"), ctext(ks[0]))
    if k == "ConditionalOperator":
        return "(%s ? %s : %s)" % (ctext(ks[0]), ctext(ks[1]), ctext(ks[2]))
    if k == "UnaryExprOrTypeTraitExpr":
        t = sizeof_operand_type(n)
        return "%s(%s)" % (n.get("name"), t)
    if k == "InitListExpr":
        return "{%s}" % ", ".join(ctext(c) for c in ks)
    if k == "CompoundLiteralExpr":
        return "(%s)%s" % (n.get("type", {}).get("qualType"), ctext(ks[0]) if ks else "{}")
    if k == "StmtExpr":
        return "({...})"
    if k == "ImplicitValueInitExpr":
        return "0"
    if k == "OpaqueValueExpr" and ks:
        return ctext(ks[0])
    if k == "BinaryConditionalOperator":
        return "(%s ?: %s)" % (ctext(ks[0]), ctext(ks[-1]))
    if k == "DesignatedInitExpr":
        return "<designated>"
    if k == "PredefinedExpr":
        return "__func__"
    if k == "VAArgExpr":
        return "va_arg"
    return "<%s>" % k


def cliterals(tu, cond, pol=True):
    """Normalised atoms (text, polarity) of a C condition taken with
    polarity pol."""
    n = strip(cond)
    k = kind(n)
    ks = kids(n)
    if k == "UnaryOperator" and n.get("opcode") == "!":
        return cliterals(tu, ks[0], not pol)
    if k == "BinaryOperator":
        op = n.get("opcode")
        if (op == "&&" and pol) or (op == "||" and not pol):
            return cliterals(tu, ks[0], pol) | cliterals(tu, ks[1], pol)
        if op in ("&&", "||"):
            parts = sorted(" & ".join(sorted(("" if p else "!") + t for t, p in cliterals(tu, x, pol))) for x in ks)
            return {(" | ".join("(%s)" % p for p in parts), True)}
        a, b = ctext(ks[0]), ctext(ks[1])
        fa, fb = tu.fold(ks[0]), tu.fold(ks[1])
        if fa is not None:
            a = str(fa)
        if fb is not None:
            b = str(fb)
        if op == "==":
            lo, hi = sorted([a, b])
            return {("%s == %s" % (lo, hi), pol)}
        if op == "!=":
            lo, hi = sorted([a, b])
            return {("%s == %s" % (lo, hi), not pol)}
        if op == "<":
            return {("%s < %s" % (a, b), pol)}
        if op == ">":
            return {("%s < %s" % (b, a), pol)}
        if op == ">=":
            return {("%s < %s" % (a, b), not pol)}
        if op == "<=":
            return {("%s < %s" % (b, a), not pol)}
    v = tu.fold(n)
    if v is not None:
        return set() if bool(v) == pol else {("0", True)}
    return {(ctext(n), pol)}


# ----------------------------------------------------------------- C CFG

class CCFG(CFG):
    """Statement CFG of a C function body (clang JSON)."""

    def __init__(self, tu, fdecl):
        self.tu = tu
        self.func = fdecl
        self.nodes = []
        self._trys = []
        self.by_ast = {}
        self.entry = self._new("entry", None)
        self.exit = self._new("exit", None)
        self.rexit = self._new("raise", None)
        self._loops = []      # (continue_target_node_or_list, break_list)
        self._labels = {}     # declId -> node
        self._gotos = []      # (node, declId)
        self._cont_pending = []
        ends = self._stmt(tu.body(fdecl), [(self.entry, None)])
        self._join(ends, self.exit)
        for n, lid in self._gotos:
            tgt = self._labels.get(lid)
            if tgt is None:
                raise AnalysisError("goto to unknown label")
            self._edge(n, tgt, None)

    def _new(self, k, a):
        n = Node(len(self.nodes), k, a)
        self.nodes.append(n)
        if a is not None:
            self.by_ast[id(a)] = n
        return n

    def node_of(self, a):
        cur = a
        while cur is not None:
            n = self.by_ast.get(id(cur))
            if n is not None:
                return n
            cur = self.tu.parent.get(id(cur))
        raise AnalysisError("C AST node not in CFG")

    def _block(self, stmts, ends):
        for st in stmts:
            ends = self._stmt(st, ends)
        return ends

    def _const_cond(self, c):
        if c is None:
            return True
        return self.tu.fold(c)

    def _stmt(self, st, ends):
        k = kind(st)
        ks = kids(st)
        if k == "CompoundStmt":
            return self._block(ks, ends)
        if k == "IfStmt":
            inner = list(st.get("inner", []))
            has_else = st.get("hasElse", False)
            # [init?] [condvar?] cond then [else]
            body = inner[-2:] if has_else else inner[-1:]
            cond = inner[-3] if has_else else inner[-2]
            pre = inner[:-3] if has_else else inner[:-2]
            for p in pre:
                if p:
                    ends = self._stmt(p, ends)
            c = self._new("cond", st)
            c.cond = cond
            self._join(ends, c)
            t = self._stmt(body[0], [(c, True)])
            f = self._stmt(body[1], [(c, False)]) if has_else else [(c, False)]
            cv = self._const_cond(cond)
            if cv is not None:
                return t if cv else f
            return t + f
        if k == "WhileStmt":
            cond, body = st["inner"][-2], st["inner"][-1]
            c = self._new("cond", st)
            c.cond = cond
            self._join(ends, c)
            brk = []
            self._loops.append((c, brk))
            b = self._stmt(body, [(c, True)])
            self._loops.pop()
            self._join(b, c)
            out = list(brk)
            cv = self._const_cond(cond)
            if not (cv is not None and cv):
                out.append((c, False))
            return out
        if k == "DoStmt":
            body, cond = st["inner"][0], st["inner"][1]
            c = self._new("cond", st)
            c.cond = cond
            head = self._new("stmt", {"kind": "DoHead", "_line": st.get("_line")})
            self._join(ends, head)
            brk = []
            self._loops.append((c, brk))
            b = self._stmt(body, [(head, None)])
            self._loops.pop()
            self._join(b, c)
            cv = self._const_cond(cond)
            out = list(brk)
            if cv is None or cv:
                self._edge(c, head, True)
            if cv is None or not cv:
                out.append((c, False))
            return out
        if k == "ForStmt":
            inner = st["inner"]
            init, cond, inc, body = inner[0], inner[2], inner[3], inner[4]
            if init:
                ends = self._stmt(init, ends)
            c = self._new("cond", st)
            c.cond = cond if cond else None
            self._join(ends, c)
            incn = self._new("stmt", inc) if inc else None
            brk = []
            self._loops.append((incn or c, brk))
            b = self._stmt(body, [(c, True)])
            self._loops.pop()
            if incn is not None:
                self._join(b, incn)
                self._edge(incn, c, None)
            else:
                self._join(b, c)
            out = list(brk)
            cv = self._const_cond(cond) if cond else True
            if not (cv is not None and cv):
                out.append((c, False))
            return out
        if k == "SwitchStmt":
            inner = st["inner"]
            cond, body = inner[-2], inner[-1]
            s = self._new("switch", st)
            s.cond = cond
            self._join(ends, s)
            brk = []
            self._loops.append((self._loops[-1][0] if self._loops else None, brk))
            self._switch_stack = getattr(self, "_switch_stack", [])
            self._switch_stack.append({"node": s, "default": False})
            b = self._stmt(body, [])
            info = self._switch_stack.pop()
            self._loops.pop()
            out = list(brk) + b
            if not info["default"]:
                out.append((s, "nodefault"))
            return out
        if k in ("CaseStmt", "DefaultStmt"):
            info = self._switch_stack[-1]
            lab = self._new("case", st)
            self._join(ends, lab)     # fall-through from previous case
            if k == "CaseStmt":
                val = self.tu.fold(st["inner"][0])
                self._edge(info["node"], lab, ("case", val if val is not None else ctext(st["inner"][0])))
                sub = st["inner"][-1]
            else:
                info["default"] = True
                self._edge(info["node"], lab, "default")
                sub = st["inner"][-1]
            return self._stmt(sub, [(lab, None)])
        if k == "ReturnStmt":
            n = self._new("stmt", st)
            self._join(ends, n)
            self._edge(n, self.exit, None)
            return []
        if k == "BreakStmt":
            n = self._new("stmt", st)
            self._join(ends, n)
            self._loops[-1][1].append((n, None))
            return []
        if k == "ContinueStmt":
            n = self._new("stmt", st)
            self._join(ends, n)
            tgt = None
            for t, _ in reversed(self._loops):
                if t is not None:
                    tgt = t
                    break
            self._edge(n, tgt, None)
            return []
        if k == "GotoStmt":
            n = self._new("stmt", st)
            self._join(ends, n)
            self._gotos.append((n, st.get("targetLabelDeclId")))
            return []
        if k == "LabelStmt":
            n = self._new("label", st)
            self._join(ends, n)
            self._labels[st.get("declId")] = n
            return self._stmt(st["inner"][-1], [(n, None)])
        if k == "NullStmt":
            return ends
        if k == "AttributedStmt":
            return self._stmt(ks[-1], ends)
        n = self._new("stmt", st)
        self._join(ends, n)
        return [(n, None)]

    # -- guard literals -------------------------------------------------------
    def guard_lits(self, target):
        out = set()
        for (c, l) in self.guards(target):
            if c.kind == "cond":
                if getattr(c, "cond", None) is not None:
                    out |= cliterals(self.tu, c.cond, bool(l))
            elif c.kind == "switch":
                if isinstance(l, tuple):
                    out.add(("%s == %s" % (ctext(c.cond), l[1]), True))
                else:
                    out.add(("%s %s" % (ctext(c.cond), l), True))
        return out

    def branch_edges(self):
        for n in self.nodes:
            if n.kind in ("cond", "switch"):
                for l in {l for (_, l) in n.succ}:
                    yield (n, l)

    def loop_of(self, node):
        cur = self.tu.parent.get(id(node.ast))
        while cur is not None and cur is not self.func:
            if kind(cur) in ("ForStmt", "WhileStmt", "DoStmt"):
                return cur
            cur = self.tu.parent.get(id(cur))
        return None


def expr_guards(tu, n, stop=None):
    """Literals established *inside the enclosing expression* for the
    sub-expression n: right operands of && / || and the arms of ?: are only
    evaluated under their left operand / condition."""
    out = set()
    child, cur = n, tu.parent.get(id(n))
    while cur is not None and cur is not stop and kind(cur) not in (
            "CompoundStmt", "FunctionDecl", "IfStmt", "WhileStmt", "ForStmt", "DoStmt", "SwitchStmt",
            "ReturnStmt", "DeclStmt"):
        k = kind(cur)
        ks = kids(cur)
        if k == "BinaryOperator" and cur.get("opcode") in ("&&", "||") and len(ks) == 2:
            if any(x is child for x in walk(ks[1])) and not any(x is child for x in walk(ks[0])):
                out |= cliterals(tu, ks[0], cur.get("opcode") == "&&")
        elif k == "ConditionalOperator" and len(ks) == 3:
            if any(x is child for x in walk(ks[1])):
                out |= cliterals(tu, ks[0], True)
            elif any(x is child for x in walk(ks[2])):
                out |= cliterals(tu, ks[0], False)
        child, cur = cur, tu.parent.get(id(cur))
    # an IfStmt / loop condition: the guards inside the condition expression itself
    return out


def fold_env(tu, n, env):
    """Integer value of expression n where sub-expressions whose canonical
    text is a key of env take the given value (C integer semantics of the
    node's own type for casts).  None if not determined."""
    n = strip(n)
    if n is None:
        return None
    t = ctext(n)
    if t in env:
        return env[t]
    v = tu.fold(n)
    if v is not None:
        return v
    k = kind(n)
    ks = kids(n)
    if k == "CStyleCastExpr":
        v = fold_env(tu, ks[0], env)
        return None if v is None else wrap_int(v, n.get("type", {}).get("qualType", ""))
    if k == "UnaryOperator":
        v = fold_env(tu, ks[0], env)
        if v is None:
            return None
        return {"-": -v, "+": v, "~": ~v, "!": int(not v)}.get(n.get("opcode"))
    if k == "BinaryOperator":
        a, b = fold_env(tu, ks[0], env), fold_env(tu, ks[1], env)
        if a is None or b is None:
            return None
        op = n.get("opcode")
        try:
            return {"+": a + b, "-": a - b, "*": a * b, "<<": a << b, ">>": a >> b, "&": a & b, "|": a | b,
                    "^": a ^ b, "<": int(a < b), ">": int(a > b), "<=": int(a <= b), ">=": int(a >= b),
                    "==": int(a == b), "!=": int(a != b), "&&": int(bool(a) and bool(b)),
                    "||": int(bool(a) or bool(b)),
                    "/": int(a / b) if b else None, "%": (a - b * int(a / b)) if b else None}.get(op)
        except (ValueError, OverflowError):
            return None
    if k == "ConditionalOperator":
        c = fold_env(tu, ks[0], env)
        if c is None:
            return None
        return fold_env(tu, ks[1] if c else ks[2], env)
    return None


class CStop(Exception):
    def __init__(self, env, node):
        self.env, self.node = env, node


class CInterp:
    """Folds comparison/assignment code of a C function over ONE point of a finite
    input domain: integer locals live in `env` (canonical text -> int), conditions are
    folded with fold_env, calls are ignored unless a hook supplies their value.  Used to
    tabulate small decision procedures exhaustively (e.g. a length classifier) whatever
    control-flow shape they are written in.  Anything it cannot fold raises AnalysisError."""

    def __init__(self, tu, hooks=None, stop=None, max_steps=20000):
        self.tu, self.hooks, self.stop = tu, hooks or {}, stop
        self.steps = 0
        self.max_steps = max_steps

    def val(self, e, env):
        e = strip(e)
        if kind(e) == "CallExpr":
            name = ctext(kids(e)[0])
            if name in self.hooks:
                return self.hooks[name](e, env)
            return None
        if kind(e) == "BinaryOperator" and e.get("opcode") == "=":
            v = self.val(kids(e)[1], env)
            env[ctext(kids(e)[0])] = v
            return v
        return fold_env(self.tu, e, {k: v for k, v in env.items() if v is not None})

    def run(self, st, env):
        """returns ('ret', value) | ('break',) | ('continue',) | None"""
        self.steps += 1
        if self.steps > self.max_steps:
            raise AnalysisError("C interpreter: step limit")
        if self.stop is not None and self.stop(st):
            raise CStop(env, st)
        k = kind(st)
        if k == "CompoundStmt":
            for x in kids(st):
                r = self.run(x, env)
                if r is not None:
                    return r
            return None
        if k == "DeclStmt":
            for d in kids(st):
                if kind(d) == "VarDecl":
                    init = [c for c in kids(d)]
                    env[d.get("name")] = self.val(init[-1], env) if init else None
            return None
        if k == "IfStmt":
            inner = st["inner"]
            has_else = st.get("hasElse", False)
            cond = inner[-3] if has_else else inner[-2]
            c = self.val(cond, env)
            if c is None:
                raise AnalysisError("C interpreter: condition does not fold: %s" % ctext(cond))
            if c:
                return self.run(inner[-2] if has_else else inner[-1], env)
            if has_else:
                return self.run(inner[-1], env)
            return None
        if k == "SwitchStmt":
            inner = st["inner"]
            v = self.val(inner[-2], env)
            if v is None:
                raise AnalysisError("C interpreter: switch value does not fold: %s" % ctext(inner[-2]))
            body = inner[-1]
            flat = []

            def flatten(x):
                if kind(x) in ("CaseStmt", "DefaultStmt"):
                    flat.append(("label", x))
                    flatten(x["inner"][-1])
                else:
                    flat.append(("stmt", x))
            for x in kids(body):
                flatten(x)
            start = None
            for i, (t, x) in enumerate(flat):
                if t == "label" and kind(x) == "CaseStmt" and self.tu.fold(x["inner"][0]) == v:
                    start = i
                    break
            if start is None:
                for i, (t, x) in enumerate(flat):
                    if t == "label" and kind(x) == "DefaultStmt":
                        start = i
                        break
            if start is None:
                return None
            for t, x in flat[start:]:
                if t == "stmt":
                    r = self.run(x, env)
                    if r == ("break",):
                        return None
                    if r is not None:
                        return r
            return None
        if k == "ReturnStmt":
            ks = kids(st)
            return ("ret", self.val(ks[0], env) if ks else None)
        if k == "BreakStmt":
            return ("break",)
        if k == "ContinueStmt":
            return ("continue",)
        if k == "DoStmt":
            body, cond = st["inner"][0], st["inner"][1]
            for _ in range(self.max_steps):
                r = self.run(body, env)
                if r == ("break",):
                    return None
                if r is not None and r != ("continue",):
                    return r
                c = self.val(cond, env)
                if c is None:
                    raise AnalysisError("C interpreter: loop condition does not fold")
                if not c:
                    return None
            raise AnalysisError("C interpreter: loop limit")
        if k in ("WhileStmt", "ForStmt"):
            raise AnalysisError("C interpreter: loop reached before the stop point")
        if k == "NullStmt":
            return None
        if k in ("BinaryOperator", "CompoundAssignOperator", "UnaryOperator"):
            ks = kids(st)
            op = st.get("opcode")
            if k == "BinaryOperator" and op == "=":
                env[ctext(ks[0])] = self.val(ks[1], env)
            elif k == "CompoundAssignOperator":
                cur = env.get(ctext(ks[0]))
                rhs = self.val(ks[1], env)
                if cur is None or rhs is None:
                    env[ctext(ks[0])] = None
                else:
                    env[ctext(ks[0])] = {"+=": cur + rhs, "-=": cur - rhs, "*=": cur * rhs, "|=": cur | rhs,
                                         "&=": cur & rhs, "<<=": cur << rhs, ">>=": cur >> rhs}.get(op)
            elif k == "UnaryOperator" and op in ("++", "--"):
                cur = env.get(ctext(ks[0]))
                env[ctext(ks[0])] = None if cur is None else cur + (1 if op == "++" else -1)
            return None
        if k in ("CallExpr", "CStyleCastExpr", "ImplicitCastExpr", "ParenExpr"):
            self.val(st, env)
            return None
        if k in ("LabelStmt", "GotoStmt"):
            raise AnalysisError("C interpreter: goto/label")
        return None


def find_nodes(root, pred):
    return [n for n in walk(root) if pred(n)]


def calls_to(root, name):
    out = []
    for n in walk(root):
        if kind(n) == "CallExpr":
            f = strip(kids(n)[0])
            if kind(f) == "DeclRefExpr" and f.get("referencedDecl", {}).get("name") == name:
                out.append(n)
    return out


def call_args(c):
    return kids(c)[1:]


# ------------------------------------------------------------ term lowering

class CLower:
    def __init__(self, tu, env=None, keep_casts=False):
        self.tu = tu
        self.env = env or {}
        self.keep_casts = keep_casts

    def lower(self, n):
        n = strip(n)
        v = self.tu.fold(n)
        if v is not None:
            return X.C(v)
        k = kind(n)
        ks = kids(n)
        txt = ctext(n)
        if txt in self.env:
            return self.env[txt]
        if k == "DeclRefExpr":
            return X.V(txt)
        if k == "MemberExpr":
            return X.V(txt)
        if k == "ArraySubscriptExpr":
            return ("idx", self.lower(ks[0]), self.lower(ks[1]))
        if k == "CStyleCastExpr":
            inner = self.lower(ks[0])
            if self.keep_casts:
                return ("call", "cast:" + n.get("type", {}).get("qualType", "?"), inner)
            return inner
        if k == "UnaryOperator":
            op = n.get("opcode")
            a = self.lower(ks[0])
            if op == "-":
                return X.neg(a)
            if op == "+":
                return a
            if op == "!":
                return ("not", a)
            if op == "~":
                return ("call", "~", a)
            if op == "*":
                return ("call", "deref", a)
            if op == "&":
                return ("call", "addr", a)
            raise AnalysisError("exprnf(C): unary %s in %s" % (op, txt))
        if k == "BinaryOperator":
            op = n.get("opcode")
            a, b = self.lower(ks[0]), self.lower(ks[1])
            if op == "+":
                return X.add(a, b)
            if op == "-":
                return X.sub(a, b)
            if op == "*":
                return X.mul(a, b)
            if op == "%":
                return X.mod(a, b)
            if op == "/":
                return X.div(a, b)
            if op == "&":
                return X.band(a, b)
            if op == "|":
                return X.bor(a, b)
            if op == "^":
                return X.bxor(a, b)
            if op == "<<":
                return X.shl(a, b)
            if op == ">>":
                return X.shr(a, b)
            if op in ("<", ">", "<=", ">=", "==", "!="):
                return X.cmp_(op, a, b)
            if op == "&&":
                return ("and", a, b)
            if op == "||":
                return ("or", a, b)
            raise AnalysisError("exprnf(C): binary %s in %s" % (op, txt))
        if k == "ConditionalOperator":
            return X.ite(self.lower(ks[0]), self.lower(ks[1]), self.lower(ks[2]))
        if k == "CallExpr":
            return ("call", ctext(ks[0])) + tuple(self.lower(a) for a in ks[1:])
        raise AnalysisError("exprnf(C): expression outside the vocabulary: %s (%s)" % (txt[:60], k))


# -------------------------------------------------------------- C lexing

def strip_comments(src):
    """Replace comments by spaces (newlines kept) -- strings respected."""
    out = []
    i, n = 0, len(src)
    while i < n:
        c = src[i]
        if c == '"' or c == "'":
            j = i + 1
            while j < n and src[j] != c:
                if src[j] == "\\":
                    j += 1
                j += 1
            out.append(src[i:j + 1])
            i = j + 1
        elif src.startswith("//", i):
            j = src.find("\n", i)
            j = n if j < 0 else j
            out.append(" " * (j - i))
            i = j
        elif src.startswith("/*", i):
            j = src.find("*/", i + 2)
            j = n - 2 if j < 0 else j
            out.append("".join(ch if ch == "\n" else " " for ch in src[i:j + 2]))
            i = j + 2
        else:
            out.append(c)
            i += 1
    return "".join(out)


def slice_function(src, name):
    """Cut the definition of function `name` (return type .. closing brace)
    out of C source text.  Returns (text, first_line)."""
    clean = strip_comments(src)
    for m in re.finditer(r"\b%s\s*\(" % re.escape(name), clean):
        # find matching ')' then '{'
        i = m.end() - 1
        depth = 0
        j = i
        while j < len(clean):
            if clean[j] == "(":
                depth += 1
            elif clean[j] == ")":
                depth -= 1
                if depth == 0:
                    break
            j += 1
        k = j + 1
        while k < len(clean) and clean[k] in " \t\r\n":
            k += 1
        if k >= len(clean) or clean[k] != "{":
            continue
        # walk back to start of declaration (after previous ';' or '}' or preprocessor line)
        s = m.start()
        while s > 0 and clean[s - 1] not in ";}":
            s -= 1
        # skip preprocessor lines / blank
        head = clean[s:m.start()]
        lines = head.split("\n")
        keep = []
        for ln in lines:
            if ln.strip().startswith("#"):
                keep = []
            else:
                keep.append(ln)
        start = m.start() - len("\n".join(keep))
        # matching close brace
        depth = 0
        e = k
        while e < len(clean):
            ch = clean[e]
            if ch == '"' or ch == "'":
                q = ch
                e += 1
                while e < len(clean) and clean[e] != q:
                    if clean[e] == "\\":
                        e += 1
                    e += 1
            elif ch == "{":
                depth += 1
            elif ch == "}":
                depth -= 1
                if depth == 0:
                    break
            e += 1
        text = src[start:e + 1]
        return text.lstrip("\n"), src.count("\n", 0, start) + 1 + (len(text) - len(text.lstrip("\n")))
    raise AnalysisError("function %s() not found in source" % name)
