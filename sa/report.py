# E11 -- obligations ledger, evidence writer, VIOLATION / KNOWN-FINDING protocol.
#
# Every rule registers obligations here.  An obligation is
#   (rule, file, function, construct-key, required, found, ok)
# The construct key is a normalised text of the construct (never a line
# number), so known findings survive reformatting and a *different*
# violation of the same rule is still reported.

import hashlib
import json
import os
import sys
import time

VERIF = os.path.dirname(os.path.dirname(os.path.abspath(__file__)))


class AnalysisError(Exception):
    """The analysis cannot give a verdict (anchor vanished, parse failure,
    unclassifiable construct, instance count below floor).  Exit code 2."""


class Ob:
    __slots__ = ("rule", "file", "func", "key", "required", "found", "ok",
                 "line", "note", "lender")

    def __init__(self, rule, file, func, key, required, found, ok, line=None,
                 note=None):
        self.rule = rule
        self.file = file
        self.func = func
        self.key = key
        self.required = required
        self.found = found
        self.ok = bool(ok)
        self.line = line
        self.note = note
        self.lender = None      # property whose rule module produced the obligation, when it was borrowed as a prerequisite

    def ident(self):
        return (self.rule, self.file, self.func, self.key)

    def as_dict(self):
        d = {"rule": self.rule, "file": self.file, "function": self.func,
             "construct": self.key, "required": self.required,
             "found": self.found,
             "verdict": "discharged" if self.ok else "VIOLATED"}
        if self.line is not None:
            d["line"] = self.line
        if self.note:
            d["note"] = self.note
        if self.lender:
            d["prerequisite_from"] = self.lender
        return d


def _short(x, n=300):
    if isinstance(x, str):
        s = x
    else:
        try:
            s = json.dumps(x, default=str, sort_keys=True)
        except TypeError:
            s = repr(x)
    return s if len(s) <= n else s[:n - 3] + "..."


class _StageFailed(object):
    def __bool__(self):
        return False
    __nonzero__ = __bool__

    def __repr__(self):
        return "STAGE_FAILED"


STAGE_FAILED = _StageFailed()


class Ledger:
    def __init__(self, prop, tier, repo, explanation="", quiet=False):
        self.prop = prop
        self.tier = tier
        self.repo = os.path.abspath(repo)
        self.obs = []
        self.units = {}       # relpath -> sha256
        self.functions = set()
        self.floors = []      # (rule, what, found, floor)
        self.deficits = []
        self._soft = None
        self.cmds = []        # external parser command lines (clang)
        self.assumptions = []
        self.explanation = explanation
        self.extra = {}
        self.t0 = time.time()
        self.quiet = quiet
        self._seen = set()

    # -- registration -----------------------------------------------------
    def unit(self, relpath):
        p = os.path.join(self.repo, relpath)
        if relpath not in self.units:
            try:
                with open(p, "rb") as f:
                    self.units[relpath] = hashlib.sha256(f.read()).hexdigest()[:16]
            except OSError as e:
                raise AnalysisError("cannot read %s: %s" % (relpath, e))
        return p

    def fn(self, relpath, qualname):
        self.functions.add("%s:%s" % (relpath, qualname))

    def structural(self, name, fn, *a, **kw):
        """Run a structural (for-all-inputs) proof attempt of a rule group whose alarm decision was already taken
        by folding the code on boundary witnesses. Its outcome is recorded in the evidence ("closed": the clause is
        proven for every input on this tree; "open": the code has a shape the structural rule does not recognise -
        then only the witnesses were decided) and never raises an alarm by itself."""
        rec = {"obligations": 0, "open": [], "hard": kw.pop("hard", None)}
        prev = self._soft
        self._soft = rec
        try:
            fn(*a, **kw)
        except AnalysisError as e:
            rec["open"].append("not recognised: %s" % str(e)[:160])
        finally:
            self._soft = prev
        self.extra.setdefault("structural_proofs", {})[name] = {
            "obligations": rec["obligations"], "closed": not rec["open"], "open": rec["open"][:5]}
        return not rec["open"]

    def ob(self, rule, file, func, key, required, found, ok, line=None,
           note=None):
        if self._soft is not None and not (self._soft.get("hard") and self._soft["hard"](rule, key)):
            # (clauses the witness fold cannot observe - locking, log lines - stay real obligations: `hard` predicate)
            self._soft["obligations"] += 1
            if not ok:
                self._soft["open"].append("%s: %s (expected %s, found %s)" % (rule, _short(key, 160), _short(required, 80), _short(found, 80)))
            return None
        o = Ob(rule, file, func, _short(key, 400), _short(required),
               _short(found), ok, line, note)
        # the same construct may be visited twice (e.g. per scenario); keep
        # a failing record over a passing one, never duplicate
        i = o.ident()
        if i in self._seen:
            for k, old in enumerate(self.obs):
                if old.ident() == i:
                    if old.ok and not o.ok:
                        self.obs[k] = o
                    break
            return o
        self._seen.add(i)
        self.obs.append(o)
        return o

    def require(self, rule, file, func, key, required, found, line=None,
                note=None):
        """Obligation 'found == required'."""
        return self.ob(rule, file, func, key, required, found,
                       found == required, line, note)

    def floor(self, rule, what, found, floor):
        if self._soft is not None:
            if found < floor:
                self._soft["open"].append("%s: %s: found %s, expected at least %s" % (rule, what, found, floor))
            return
        self.floors.append((rule, what, found, floor))
        if found < floor:
            # deferred: a recognised violation takes precedence over "cannot
            # tell"; without one the run ends as ANALYSIS-ERROR (see finish)
            self.deficits.append(
                "[%s] instance count below floor: %s: found %d, confirmed by "
                "hand %d -- the rule would pass vacuously" % (rule, what, found, floor))

    def stage(self, fn, *a, **kw):
        """Run one rule group. An AnalysisError inside it is deferred: the other rule groups still run, a
        violation recognised by any of them is reported (exit 1); without a violation the run ends as
        ANALYSIS-ERROR (exit 2). Returns the group's result, or STAGE_FAILED."""
        if any(x is STAGE_FAILED for x in a):
            return STAGE_FAILED         # depends on a group that could not be analysed (already recorded)
        try:
            return fn(*a, **kw)
        except AnalysisError as e:
            self.deficits.append(str(e))
            return STAGE_FAILED

    def assume(self, text):
        if text not in self.assumptions:
            self.assumptions.append(text)

    def borrow(self, lender, reason, pred, run_lender):
        """Prerequisites: rule instances of another property's module that are necessary conditions of THIS property as well
        (the behaviour this property states is built on the behaviour those rules decide; `reason` says how).  The lender's
        rule groups are run on a ledger of their own; the obligations selected by `pred` are taken over, labelled with their
        origin.  A lender that cannot be analysed adds nothing (this property's own rules keep their verdict); floors and
        deferred analysis errors of the lender stay the lender's."""
        rec = self.extra.setdefault("prerequisites", {}).setdefault(lender, {"reason": reason, "obligations": 0, "violated": 0})
        try:
            sub = run_lender(lender)
        except AnalysisError as e:
            rec["not_evaluated"] = str(e)[:200]
            return
        n = 0
        for o in sub.obs:
            if not pred(o):
                continue
            i = o.ident()
            if i in self._seen:
                continue
            self._seen.add(i)
            o.lender = lender
            o.note = ("prerequisite (rule of %s): %s" % (lender, reason)) if not o.note else o.note
            self.obs.append(o)
            n += 1
            rec["violated"] += int(not o.ok)
            rf = o.file
            if rf and rf not in self.units and rf in sub.units:
                self.units[rf] = sub.units[rf]
        rec["obligations"] += n

    # -- verdict ----------------------------------------------------------
    def finish(self):
        known = load_known()
        viol, knownhits = [], []
        for o in self.obs:
            if o.ok:
                continue
            k = match_known(known, o.lender or self.prop, o)
            if k is not None:
                knownhits.append((o, k))
            else:
                viol.append(o)
        if self.deficits and not viol:
            raise AnalysisError("; ".join(self.deficits))
        out = []
        for o, k in knownhits:
            out.append("KNOWN-FINDING: property=%s [%s] %s:%s: %s -- %s" % (
                self.prop, o.rule, o.file, o.func, o.key, k.get("what", "")))
        replay_dir = os.path.join(VERIF, "evidence", "replay")
        for n, o in enumerate(viol):
            loc = "%s:%s" % (o.file, o.line if o.line is not None else "?")
            out.append("%s: [%s] %s: %s (expected %s, found %s)" % (
                loc, o.rule, o.func, o.key, o.required, o.found))
            os.makedirs(replay_dir, exist_ok=True)
            rp = os.path.join(replay_dir, "%s-%d.json" % (self.prop, n))
            with open(rp, "w") as f:
                json.dump({"property": self.prop, "tier": self.tier,
                           "obligation": o.as_dict()}, f, indent=1)
            out.append("VIOLATION property=%s replay=%s" % (self.prop, rp))
        self.write_evidence(len(viol), len(knownhits))
        if not self.quiet:
            for line in out:
                print(line)
            nob = len(self.obs)
            print("%s %s: %d obligations over %d files / %d functions, "
                  "%d discharged, %d known findings, %d violations" % (
                      self.prop, self.tier, nob, len(self.units),
                      len(self.functions), sum(1 for o in self.obs if o.ok),
                      len(knownhits), len(viol)))
        return 1 if viol else 0

    def write_evidence(self, nviol, nknown):
        obs = self.obs
        distinct = len({(o.file, o.func, o.key) for o in obs})
        # samples: all failing + a spread of passing obligations
        samples = [o.as_dict() for o in obs if not o.ok]
        passing = [o for o in obs if o.ok]
        step = max(1, len(passing) // 12)
        samples += [o.as_dict() for o in passing[::step][:14]]
        rules = {}
        for o in obs:
            r = rules.setdefault(o.rule, {"obligations": 0, "discharged": 0})
            r["obligations"] += 1
            r["discharged"] += int(o.ok)
        cov = {
            "explanation": self.explanation or (
                "static analysis: rule obligations over the parsed program"),
            "evaluations": len(obs),
            "distinct_nontrivial": distinct,
            "rule": "one evaluation = one rule instance (obligation) on one "
                    "construct of the current source tree; distinct = distinct "
                    "(file, function, construct) triples; every obligation is "
                    "non-trivial in that it is derived from a construct found "
                    "in the parsed program (instance floors make an empty match "
                    "an analysis error)",
            "samples": samples,
            "obligations": len(obs),
            "discharged": sum(1 for o in obs if o.ok),
            "known_findings": nknown,
            "per_rule": rules,
            "files": self.units,
            "functions": sorted(self.functions),
            "floors": [{"rule": r, "what": w, "found": f, "floor": fl}
                       for r, w, f, fl in self.floors],
            "parser_cmds": self.cmds[:20],
            "trusted_base": ["python ast", "clang 14 -ast-dump=json",
                             "/verif/cstubs", "/verif/spec"],
        }
        cov.update(self.extra)
        ev = {
            "property_id": self.prop,
            "tier": self.tier,
            "seed": int(os.environ.get("VERIF_SEED", "0") or 0),
            "level": "other",
            "coverage": cov,
            "assumptions": self.assumptions,
            "wall_s": round(time.time() - self.t0, 3),
            "violations": nviol,
        }
        d = os.path.join(VERIF, "evidence")
        os.makedirs(d, exist_ok=True)
        path = os.environ.get("VERIF_EVIDENCE_OUT") or os.path.join(
            d, "%s.json" % self.prop)
        tmp = path + ".tmp.%d" % os.getpid()
        with open(tmp, "w") as f:
            json.dump(ev, f, indent=1, default=str)
        os.replace(tmp, path)


# -- known findings -------------------------------------------------------

def load_known():
    p = os.path.join(VERIF, "known_findings.json")
    if not os.path.exists(p):
        return []
    with open(p) as f:
        return json.load(f).get("findings", [])


def match_known(known, prop, o):
    for k in known:
        if k.get("status") != "known":
            continue       # 'fixed' entries document, they suppress nothing
        if k.get("property") != prop or k.get("rule") != o.rule:
            continue
        if k.get("file") != o.file or k.get("function") != o.func:
            continue
        if k.get("construct") != o.key:
            continue
        return k
    return None
