# C10 -- forwarded bursts carry faithful bits and correct simulated radio
# metadata.

import ast
from pyfront import clone as _clone
import json
import os

from report import AnalysisError, VERIF
from pyfront import Repo, CFG, canon, guard_literals, literals, calls_in, qualname, attr_accesses
from pyutil import params, deep_subst, find_calls, lit_fmt, rel, branch_subst
from dtable import Walker
from symfwd import Fwd, subst_expr
from consteval import Ev, fold, Unknown, Raised
import exprnf as X

EXPLANATION = (
    "Forward substitution and linear normal forms of the values stored by "
    "FakeTRX.handle_data_msg (RSSI, ToA256, C/I), decision tables of the "
    "randomised properties, structural check of TxMsg.trans and of the v1 "
    "modulation/TSC selection, constant folding of the training-sequence table "
    "(vs reference copy) and of the slice offsets used by TrainingSeqGMSK.pick, "
    "and length-tracking interpretation of the burst generators (the training "
    "sequence starts exactly where pick() looks for it, every burst has 148 bits).")
ASSUMPTIONS = [
    "numeric values for concrete configurations are not enumerated; randomised values are decided only up to their window bounds (random.randint(a, b) returns a <= x <= b)",
]
F = rel("fake_trx")


def _fold_trans(repo, ci, tr):
    """TxMsg.trans folded over its complete decision space: requested header version None / 0 / 1, own version 0 / 1,
    burst present or not; the other field values are opaque (the method can only copy them).
    -> rows or None when the body does not fold"""
    from consteval import Opaque
    VER = params(tr)[1]
    rows = []
    import itertools
    for ver_given, own_ver in itertools.product((None, 0, 1), (0, 1)):
        for has_burst in (False, True):
            made = []
            env = {VER: ver_given, "self.fn": Opaque("self.fn"), "self.tn": Opaque("self.tn"),
                   "self.ver": own_ver, "self.burst": Opaque("self.burst") if has_burst else None}
            e = Ev(repo, ci.mod, env=env, self_cls=ci)

            def mk(a, kw, made=made):
                made.append((tuple(a), dict(kw)))
                return Opaque("NEW%d" % len(made))
            mk.wants_kw = True
            e.hooks = {"RxMsg": mk, "self.ubit2sbit": lambda a: Opaque("ubit2sbit(%r)" % (tuple(a),))}
            try:
                r = e.run_block(tr.body)
            except (Unknown, Raised):
                return None
            ret = r[1] if isinstance(r, tuple) else None
            stores = {}
            for k, v in e.env.items():
                if isinstance(k, str) and "." in k and isinstance(e.env.get(k.split(".")[0]), Opaque) \
                        and e.env[k.split(".")[0]].text.startswith("NEW"):
                    stores[(e.env[k.split(".")[0]].text, k.split(".", 1)[1])] = v
            rows.append((ver_given, own_ver, has_burst, made, ret, stores))
    return rows


def r1_copy(L, repo, force_shape=False):
    FD = rel("data_msg")
    L.unit(FD)
    ci, tr = repo.need_method("data_msg", "TxMsg", "trans")
    fn = "TxMsg.trans"
    L.fn(FD, fn)
    rows = None if force_shape else _fold_trans(repo, ci, tr)
    if rows is not None:
        from consteval import Opaque
        for ver_given, own_ver, has_burst, made, ret, stores in rows:
            wantver = own_ver if ver_given is None else ver_given
            want_made = [((), {"fn": Opaque("self.fn"), "tn": Opaque("self.tn"), "ver": wantver})]
            want_st = {("NEW1", "burst"): Opaque("ubit2sbit(%r)" % ((Opaque("self.burst"),),))} if has_burst else {("NEW1", "nope_ind"): True}
            L.require("C10.R1", FD, fn, "the copy is one new RxMsg with the sender's frame and timeslot number and the %s header version; %s [version requested=%s, burst present=%d, own version=%d]" % (
                "requested" if ver_given is not None else "sender's", "hard bits become soft bits through ubit2sbit" if has_burst else "a missing burst becomes a NOPE indication", ver_given, has_burst, own_ver),
                (want_made, Opaque("NEW1"), want_st), (made, ret, stores), line=tr.lineno)
        L.structural("C10.R1 shape of TxMsg.trans (constructor keywords, decision table of the burst branch)", r1_copy_shape, L, repo)
    else:
        r1_copy_shape(L, repo)
    r1_copy_rest(L, repo)


def r1_copy_shape(L, repo):
    FD = rel("data_msg")
    ci, tr = repo.need_method("data_msg", "TxMsg", "trans")
    fn = "TxMsg.trans"
    VER = params(tr)[1]
    ctor = [c for c in calls_in(tr) if canon(c.func) == "RxMsg"]
    L.require("C10.R1", FD, fn, "number of RxMsg constructions", 1, len(ctor))
    NEW = None
    for c in ctor:
        kws = {k.arg: canon(k.value) for k in c.keywords}
        L.require("C10.R1", FD, fn, "the copy keeps frame and timeslot number and takes the recipient's header version",
                  {"fn": "self.fn", "tn": "self.tn", "ver": "self.ver if %s is None else %s" % (VER, VER)}, kws, line=c.lineno)
        par = getattr(c, "_parent", None)
        if isinstance(par, ast.Assign) and isinstance(par.targets[0], ast.Name):
            NEW = par.targets[0].id
    if NEW is None:
        raise AnalysisError("TxMsg.trans: the new message is not bound to a local")

    def ev(st):
        if isinstance(st, ast.Assign) and len(st.targets) == 1 and canon(st.targets[0]).startswith(NEW + "."):
            return (canon(st.targets[0])[len(NEW) + 1:], canon(st.value))
        if isinstance(st, ast.Return):
            return ("ret", canon(st.value) if st.value is not None else None)
        return None
    W = Walker(ev)
    atoms = W.atoms(tr.body)
    A = "None is self.burst"
    unknown = [x for x in atoms if x != A]
    if A not in atoms:
        atoms.append(A)
    atoms, rows = W.table(tr.body, atoms)
    for vals, evs in sorted(rows.items()):
        a = dict(zip(atoms, vals))
        want = (("nope_ind", "True"), ("ret", NEW)) if a[A] else (("burst", "self.ubit2sbit(self.burst)"), ("ret", NEW))
        extra = "".join(" %s=%d" % (u[:40], a[u]) for u in unknown)
        L.require("C10.R1", FD, fn, "hard bits become soft bits through ubit2sbit; a missing burst becomes a NOPE indication [burst missing=%d%s]" % (a[A], extra),
                  want, evs)


def r1_copy_rest(L, repo):
    # legacy padding towards L1
    FT = rel("transceiver")
    L.unit(FT)
    ci, hd = repo.need_method("transceiver", "Transceiver", "handle_data_msg")
    sends = [canon(c) for c in calls_in(hd) if canon(c.func).endswith("send_msg")]
    P = params(hd)[1]
    L.require("C10.R1", FT, "Transceiver.handle_data_msg", "bursts go to L1 through send_msg with legacy padding enabled",
              ["self.data_if.send_msg(%s, legacy=True)" % P], sends)
    ci, sm = repo.need_method("data_if", "DATAInterface", "send_msg")
    g = [canon(c) for c in calls_in(sm) if canon(c.func).endswith("gen_msg")]
    ps = params(sm)
    L.require("C10.R1", rel("data_if"), "DATAInterface.send_msg", "the legacy flag reaches gen_msg()", ["%s.gen_msg(%s)" % (ps[1], ps[2])], g)


def r5_rejected_config(L, repo):
    """R5 ("configured base / threshold"): the radio metadata a recipient reports is computed from the FAKE_TOA /
    FAKE_RSSI / FAKE_CI settings, which are configured by ACCEPTED commands only: a command the transceiver answers
    with a non-zero status - or whose number does not parse (ValueError, answered -1 by the control interface) - leaves
    base and threshold as they were.  FakeTRX.ctrl_cmd_handler is folded (cmdfold) for every combination of the
    argument witnesses {positive, negative, zero, non-numeric, empty} in the one- and two-argument forms."""
    from cmdfold import fold_fake_cmd
    import itertools
    FF = rel("fake_trx")
    fn = "FakeTRX.ctrl_cmd_handler"
    L.fn(FF, fn)
    wit = ["7", "-3", "0", "1O", ""]
    n = 0
    for verb in ("FAKE_TOA", "FAKE_RSSI", "FAKE_CI"):
        for argc in (1, 2):
            for args in itertools.product(wit, repeat=argc):
                f = fold_fake_cmd(repo, [verb] + list(args))
                rejected = f.raised is not None or (f.ret is not None and f.ret != 0 and not (isinstance(f.ret, tuple) and f.ret[0] == 0))
                if not rejected:
                    continue
                n += 1
                ch = {k: v for k, v in f.changed.items() if not k.startswith("self.ctrl_if.")}
                L.ob("C10.R5", FF, fn, "CMD %s %s is rejected (%s): the simulated radio settings stay as configured" % (
                    verb, " ".join(repr(a) for a in args), f.raised or "status %s" % (f.ret,)), {}, ch, not ch)
    L.floor("C10.R5", "rejected FAKE_* configuration commands folded", n, 20)


def inline_props(repo, ci, expr, selfname):
    """replace `<selfname>.<prop>` by the property body (single return) with self renamed"""
    import copy
    from pyfront import _Subst

    class T(ast.NodeTransformer):
        def visit_Attribute(self, n):
            self.generic_visit(n)
            if isinstance(n.value, ast.Name) and n.value.id == selfname:
                c, m = repo.find_method(ci, n.attr)
                if m is not None and any(isinstance(d, ast.Name) and d.id == "property" for d in m.decorator_list):
                    rets = [s for s in m.body if isinstance(s, ast.Return)]
                    if len(m.body) == len(rets) == 1 or (len(rets) == 1 and all(
                            isinstance(s, ast.Return) or (isinstance(s, ast.Expr) and isinstance(s.value, ast.Constant)) for s in m.body)):
                        body = _clone(rets[0].value)

                        class R(ast.NodeTransformer):
                            def visit_Name(self, x):
                                if x.id == "self":
                                    return ast.Name(id=selfname, ctx=ast.Load())
                                return x
                        return R().visit(body)
            return n
    return T().visit(_clone(expr))


def r2_formulas(L, repo):
    L.unit(F)
    ci = repo.need_class("fake_trx", "FakeTRX")
    c, hd = repo.need_method("fake_trx", "FakeTRX", "handle_data_msg")
    fn = "FakeTRX.handle_data_msg"
    L.fn(F, fn)
    ps = params(hd)
    _, SRC, SMSG, MSG = ps
    mod = repo.mod("fake_trx")
    cfg = CFG(hd)

    def const(e):
        try:
            v = Ev(repo, mod, self_cls=ci).ev(e)
            return v if isinstance(v, int) and not isinstance(v, bool) else None
        except (Unknown, Raised):
            return None
    # RSSI and ToA256 of a forwarded burst: complete decision table of handle_data_msg over its branch conditions; per
    # row the FINAL values of msg.rssi / msg.toa256 (assignments and in-place corrections composed, conditional
    # expressions resolved) as linear normal forms - however the statements are split, merged or moved into helpers
    DELIV = "Transceiver.handle_data_msg(self, %s)" % MSG

    def ev_(st):
        if isinstance(st, ast.Return):
            return ("ret",)
        if isinstance(st, ast.Assign) and len(st.targets) == 1 and canon(st.targets[0]) in ("%s.rssi" % MSG, "%s.toa256" % MSG):
            return ("set", canon(st.targets[0])[len(MSG) + 1:], st.value)
        if isinstance(st, ast.AugAssign) and canon(st.target) in ("%s.rssi" % MSG, "%s.toa256" % MSG):
            return ("aug", canon(st.target)[len(MSG) + 1:], st.op, st.value)
        if isinstance(st, ast.Expr) and isinstance(st.value, ast.Call) and canon(st.value) in (DELIV, "super().handle_data_msg(%s)" % MSG):
            return ("deliver",)
        return None
    Wt = Walker(ev_)
    atoms = Wt.atoms(hd.body)
    A_FAKE, A_TA0 = "self.fake_rssi_enabled", "0 == %s.ta" % SRC
    for need in (A_FAKE,):
        if need not in atoms:
            atoms.append(need)
    if len(atoms) > 10:
        raise AnalysisError("handle_data_msg: too many branch atoms for a decision table: %s" % atoms)
    import itertools
    n_fwd = 0
    seen_formula = seen_fake = 0
    for vals in itertools.product([False, True], repeat=len(atoms)):
        a_ = dict(zip(atoms, vals))
        evs = []
        Wt.locals = {}
        Wt.walk(hd.body, dict(a_), evs)
        if ("deliver",) not in evs:
            continue            # suppressed burst (NOPE / drop): decided by C18
        n_fwd += 1
        cut = evs.index(("deliver",))
        fin = {}
        for e_ in evs[:cut]:
            if e_[0] == "set":
                fin[e_[1]] = e_[2]
            elif e_[0] == "aug" and e_[1] in fin:
                fin[e_[1]] = ast.BinOp(left=fin[e_[1]], op=e_[2], right=e_[3])
        late = [e_ for e_ in evs[cut:] if e_[0] in ("set", "aug")]
        rowtxt = ", ".join("%s=%d" % (k[:32], v) for k, v in sorted(a_.items()))
        L.ob("C10.R2", F, fn, "no field is changed after the burst was handed on [%s]" % rowtxt, [], [x[1] for x in late], not late, hd.lineno)
        # ToA256
        if "toa256" not in fin:
            L.ob("C10.R2", F, fn, "ToA256 is set for a forwarded burst [%s]" % rowtxt, "set", "never assigned", False, hd.lineno)
        else:
            try:
                co, c0 = X.linear(X.PyLower(const=const).lower(fin["toa256"]))
            except AnalysisError:
                co, c0 = {"<not linear>": canon(fin["toa256"])[:60]}, None
            want_t = ({"self.toa256": 1, "%s.ta" % SRC: -256}, 0)
            ok_t = (co, c0) == want_t or (a_.get(A_TA0) is True and (co, c0) == ({"self.toa256": 1}, 0))
            L.ob("C10.R2", F, fn, "ToA256 = recipient's ToA window value - 256 x sender timing advance [%s]" % rowtxt,
                 want_t, (co, c0), ok_t, hd.lineno)
        # RSSI
        if "rssi" not in fin:
            L.ob("C10.R2", F, fn, "RSSI is set for a forwarded burst [%s]" % rowtxt, "set", "never assigned", False, hd.lineno)
            continue
        rv = fin["rssi"]
        # a conditional expression on the FAKE_RSSI switch is resolved by the row
        while isinstance(rv, ast.IfExp):
            lits_ = literals(rv.test, True)
            if lits_ == {(A_FAKE, True)}:
                rv = rv.body if a_[A_FAKE] else rv.orelse
            elif lits_ == {(A_FAKE, False)}:
                rv = rv.orelse if a_[A_FAKE] else rv.body
            else:
                break
        if a_[A_FAKE]:
            seen_fake += 1
            L.require("C10.R2", F, fn, "with FAKE_RSSI the value comes from the recipient's RSSI window [%s]" % rowtxt, "self.rssi", canon(rv), line=hd.lineno)
            continue
        seen_formula += 1
        e = inline_props(repo, ci, rv, SRC)
        try:
            co, c0 = X.linear(X.PyLower(const=const).lower(e))
        except AnalysisError:
            co, c0 = {"<not linear>": canon(rv)[:60]}, None
        # the path-loss term: a non-positive constant, or -1 x a configuration attribute of the recipient that is
        # written only by its constructor (the property fixes the form of the sum, not the number of dB)
        co = dict(co)
        pl_attr = [k for k in co if k.startswith("self.") and co[k] == -1]
        pl_desc = c0
        if len(pl_attr) == 1 and c0 == 0:
            a1 = pl_attr[0][5:]
            writers = set()
            for m_ in repo.tk_modules():
                for n_, k_ in attr_accesses(m_.tree, a1):
                    if k_ != "load":
                        writers.add(qualname(n_))
            if writers <= {"FakeTRX.__init__"} and writers:
                del co[pl_attr[0]]
                pl_desc = "-%s (set by the constructor only)" % pl_attr[0]
        want = {"%s.tx_power_base" % SRC: 1, "%s.tx_att_base" % SRC: -1, "%s.pwr" % SMSG: -1}
        okc = isinstance(pl_desc, str) or (isinstance(pl_desc, int) and pl_desc <= 0)
        L.ob("C10.R2", F, fn, "RSSI = sender nominal power - sender attenuation - burst attenuation - path loss [%s]" % rowtxt,
             (want, "- path loss (a constant or a constructor-only attribute of the recipient)"), (co, pl_desc),
             co == want and okc, hd.lineno)
    L.floor("C10.R2", "decision-table rows that forward a burst", n_fwd, 2)
    L.floor("C10.R2", "forwarding rows using the RSSI formula / the FAKE_RSSI window", min(seen_formula, seen_fake), 1)
    # C/I
    c, h1 = repo.need_method("fake_trx", "FakeTRX", "_handle_data_msg_v1")
    P1 = params(h1)
    cis = [canon(n.value) for n in ast.walk(h1) if isinstance(n, ast.Assign) and canon(n.targets[0]) == "%s.ci" % P1[2]]
    L.require("C10.R2", F, "FakeTRX._handle_data_msg_v1", "C/I comes from the recipient's C/I window", ["self.ci"], cis)
    # randomised properties: base when threshold == 0, else randint(base - thr, base + thr)
    for prop, base, thr in (("toa256", "toa256_base", "toa256_rand_threshold"), ("rssi", "rssi_base", "rssi_rand_threshold"),
                            ("ci", "ci_base", "ci_rand_threshold")):
        c, m = repo.find_method(ci, prop)
        if m is None:
            raise AnalysisError("FakeTRX.%s vanished" % prop)
        # decided by folding the property for boundary witnesses of (base, threshold >= 0), the random draw as an
        # oracle that records its range: base itself for threshold 0, a draw from [base - thr, base + thr] otherwise
        folded = True
        bad = []
        for b_ in (-1280, -3, 0, 7, 1280):
            for t_ in (0, 1, 5, 300):
                draws = []

                def rnd(a_, draws=draws):
                    draws.append((a_[0], a_[1]))
                    return ("draw", a_[0], a_[1])
                e_ = Ev(repo, ci.mod, env={"self.%s" % base: b_, "self.%s" % thr: t_}, self_cls=ci)
                e_.hooks = {"random.randint": rnd, "randint": rnd}
                try:
                    r_ = e_.run_block(m.body)
                except (Unknown, Raised):
                    folded = False
                    break
                v_ = r_[1] if isinstance(r_, tuple) else None
                want_ = b_ if t_ == 0 else ("draw", b_ - t_, b_ + t_)
                if v_ != want_ or (t_ == 0 and draws):
                    bad.append({"base": b_, "threshold": t_, "value": v_})
            if not folded:
                break
        if folded:
            L.ob("C10.R2", F, "FakeTRX.%s" % prop, "%s = base when the threshold is 0, else drawn from [base - threshold, base + threshold] (folded for 20 boundary witnesses)" % prop,
                 [], bad[:3], not bad, m.lineno)
            continue
        fw = Fwd(split=True)
        fw.run(m.body)
        got = {}
        for conds, r in fw.returns:
            key = tuple(sorted(conds))
            if r is not None and isinstance(r, ast.Call) and canon(r.func) in ("random.randint", "randint") and len(r.args) == 2:
                lo = X.linear(X.PyLower().lower(r.args[0]))
                hi = X.linear(X.PyLower().lower(r.args[1]))
                got[key] = ("randint", lo, hi)
            else:
                got[key] = canon(r) if r is not None else None
        zero = (("0 == self.%s" % thr, True),)
        nz = (("0 == self.%s" % thr, False),)
        want = {zero: "self.%s" % base,
                nz: ("randint", ({"self.%s" % base: 1, "self.%s" % thr: -1}, 0), ({"self.%s" % base: 1, "self.%s" % thr: 1}, 0))}
        L.require("C10.R2", F, "FakeTRX.%s" % prop, "%s = base when the threshold is 0, else uniformly inside [base - threshold, base + threshold]" % prop,
                  want, got)
    c, tp = repo.find_method(ci, "tx_power")
    r = [canon(s.value) for s in tp.body if isinstance(s, ast.Return)]
    L.require("C10.R2", F, "FakeTRX.tx_power", "transmit power = nominal power - configured attenuation", ["self.tx_power_base - self.tx_att_base"], r)


def r3_mod_tsc(L, repo):
    ci = repo.need_class("fake_trx", "FakeTRX")
    c, h1 = repo.need_method("fake_trx", "FakeTRX", "_handle_data_msg_v1")
    fn = "FakeTRX._handle_data_msg_v1"
    L.fn(F, fn)
    _, SMSG, MSG = params(h1)
    cfg = CFG(h1)
    subst = deep_subst(h1)
    # modulation
    mods = [n for n in ast.walk(h1) if isinstance(n, ast.Assign) and canon(n.targets[0]) == "%s.mod_type" % MSG]
    pick = "Modulation.pick_by_bl(len(%s.burst))" % SMSG
    # decided by folding the stored expression for bursts of every length a modulation defines (first member wins for
    # shared lengths) and of lengths none defines
    folded_mod = False
    if len(mods) == 1 and not guard_literals(cfg, cfg.node_of(mods[0]), subst):
        mci_ = repo.need_class("data_msg", "Modulation")
        members_ = Ev(repo, ci.mod, self_cls=ci).enum_members(mci_)
        first = {}
        for m_ in members_:
            first.setdefault(m_.attrs.get("bl"), m_.name)
        try:
            rows_ = []
            for bl_ in sorted(x for x in first if isinstance(x, int)) + [0, 1, 147, 149, 443, 445]:
                e_ = Ev(repo, ci.mod, env={"%s.burst" % SMSG: [0] * bl_}, self_cls=ci)
                # locals the expression reads (bl = len(...)) are evaluated in order
                for st_ in h1.body:
                    if st_ is mods[0]:
                        break
                    if isinstance(st_, ast.Assign) and len(st_.targets) == 1 and isinstance(st_.targets[0], ast.Name):
                        try:
                            e_.run_stmt(st_)
                        except (Unknown, Raised):
                            pass
                v_ = e_.ev(mods[0].value)
                rows_.append((bl_, getattr(v_, "name", v_), first.get(bl_)))
            for bl_, got_, want_ in rows_:
                L.require("C10.R3", F, fn, "a %d-bit burst is forwarded with modulation %s" % (bl_, want_), want_, got_, line=mods[0].lineno)
            folded_mod = True
        except (Unknown, Raised):
            folded_mod = False
    if folded_mod:
        L.structural("C10.R3 modulation through Modulation.pick_by_bl(len(burst))", L.require, "C10.R3", F, fn, "modulation follows the length of the transmitted burst",
                     [([], pick)], [(lit_fmt(guard_literals(cfg, cfg.node_of(n), subst)), canon(n.value, subst)) for n in mods])
    else:
        L.require("C10.R3", F, fn, "modulation follows the length of the transmitted burst",
                  [([], pick)], [(lit_fmt(guard_literals(cfg, cfg.node_of(n), subst)), canon(n.value, subst)) for n in mods])
    # the training sequence found in the transmitted burst: decided by folding the whole method on witness bursts; the
    # decision table below is the proof attempt for every burst
    if _v1_fold(L, repo, h1, SMSG, MSG):
        L.structural("C10.R3 decision table of the TSC / TSC set stores in _handle_data_msg_v1", _v1_table, L, repo, h1, SMSG, MSG, cfg)
    else:
        _v1_table(L, repo, h1, SMSG, MSG, cfg)
    _v1_rest(L, repo)


def _v1_fold(L, repo, h1, SMSG, MSG):
    """FakeTRX._handle_data_msg_v1(source message, forwarded message) folded on witness bursts: 148 bits without any training
    sequence, with a normal / sync / access burst sequence in place, 444 bits without and WITH the bit pattern of a GMSK
    sequence in them, 296 bits.  Required: modulation by length, TSC / TSC set of the sequence present in a GMSK burst
    (0 / 0 when none is, and for every other modulation), and no exception.  -> False when the method does not fold"""
    from consteval import Opaque
    fn = "FakeTRX._handle_data_msg_v1"
    ci = repo.need_class("fake_trx", "FakeTRX")
    gs = repo.mod("gsm_shared")
    tci = repo.need_class("gsm_shared", "TrainingSeqGMSK")
    with open(os.path.join(VERIF, "spec", "training_seq.json")) as f:
        ref = json.load(f)
    members = Ev(repo, gs).enum_members(tci)
    mci_ = repo.need_class("data_msg", "Modulation")
    first = {}
    for m_ in Ev(repo, ci.mod, self_cls=ci).enum_members(mci_):
        first.setdefault(m_.attrs.get("bl"), m_.name)

    def place(burst, m):
        o = ref["offsets"][m.value[1].name]
        for i, ch in enumerate(m.value[2]):
            burst[o["start"] + i] = int(ch)
        return burst
    by_bt = {}
    for m in members:
        if m.value[0] != 0:
            by_bt.setdefault(m.value[1].name, m)
    wit = [("148 bits, no training sequence", bytearray(148), (0, 0))]
    for bt, m in sorted(by_bt.items()):
        wit.append(("148 bits carrying %s" % m.name, place(bytearray(148), m), (m.value[0], m.attrs.get("tsc_set", 0))))
    wit.append(("444 bits, no training sequence", bytearray(444), (0, 0)))
    for bt, m in sorted(by_bt.items())[:2]:
        wit.append(("444 bits with the bit pattern of %s in them" % m.name, place(bytearray(444), m), (0, 0)))
    wit.append(("296 bits", bytearray(296), (0, 0)))
    # a truncated / empty burst (no modulation has that length): whatever is recorded for it, the method completes - the
    # message is refused by validation afterwards, an exception here would leave the clock thread
    wit.append(("10 bits", bytearray(10), (0, 0)))
    wit.append(("0 bits", bytearray(0), (0, 0)))
    rows = []
    try:
        for title, burst, (tsc, tset) in wit:
            src = {"burst": burst, "ver": 1}
            msg = {"ci": None, "mod_type": None, "tsc": None, "tsc_set": None, "ver": 1, "burst": None, "nope_ind": False}
            e = Ev(repo, ci.mod, env={SMSG: src, MSG: msg, "self.ci": 55}, self_cls=ci)
            e.ignore_calls = ("log.", "logging.")
            try:
                e.run_block(h1.body)
                got = (getattr(msg["mod_type"], "name", msg["mod_type"]), msg["tsc"], msg["tsc_set"])
            except Raised as ex:
                got = "raises %s" % ex.cls
            rows.append((title, (first.get(len(burst)), tsc, tset), got))
    except Unknown:
        return False
    for title, want, got in rows:
        L.require("C10.R3", F, fn, "burst of %s forwarded on a version-1 link: (modulation, TSC, TSC set)" % title, want, got, line=h1.lineno)
    L.floor("C10.R3", "version-1 witness bursts folded", len(rows), 7)
    return True


def _v1_table(L, repo, h1, SMSG, MSG, cfg):
    fn = "FakeTRX._handle_data_msg_v1"
    SS = None
    for n in ast.walk(h1):
        if isinstance(n, ast.Assign) and isinstance(n.targets[0], ast.Name) and \
                canon(n.value) == "TrainingSeqGMSK.pick(%s.burst)" % SMSG:
            SS = n.targets[0].id
    if SS is None:
        raise AnalysisError("_handle_data_msg_v1: TrainingSeqGMSK.pick(<source burst>) is not bound to a local")

    def ev(st):
        if isinstance(st, ast.Assign) and len(st.targets) == 1 and canon(st.targets[0]) in ("%s.tsc" % MSG, "%s.tsc_set" % MSG):
            return (canon(st.targets[0])[len(MSG) + 1:], canon(st.value))
        if isinstance(st, ast.Assign) and len(st.targets) == 1 and isinstance(st.targets[0], ast.Name) and st.targets[0].id == SS:
            return ("pick",)
        return None
    W = Walker(ev)
    atoms = W.atoms(h1.body)
    A_G, A_N = "Modulation.ModGMSK is %s.mod_type" % MSG, "None is %s" % SS
    unknown = [x for x in atoms if x not in (A_G, A_N)]
    for x in (A_G, A_N):
        if x not in atoms:
            atoms.append(x)
    atoms, rows = W.table(h1.body, atoms)
    for vals, evs in sorted(rows.items()):
        a = dict(zip(atoms, vals))
        got = dict((e[0], e[1]) for e in evs if len(e) == 2)
        picked = ("pick",) in evs
        if a[A_G] and not a[A_N]:
            want = {"tsc": "%s.tsc" % SS, "tsc_set": "%s.tsc_set" % SS}
        else:
            want = {"tsc": "0", "tsc_set": "0"}
        ok = got == want and (picked or not a[A_G])
        extra = "".join(" %s=%d" % (u[:40], a[u]) for u in unknown)
        L.ob("C10.R3", F, fn, "TSC / TSC set are those of the training sequence found in a GMSK burst, 0 if none or another modulation [GMSK=%d, none found=%d%s]" % (
            a[A_G], a[A_N], extra), want, got, ok, h1.lineno)


def _v1_rest(L, repo):
    ci = repo.need_class("fake_trx", "FakeTRX")
    # call site: only for version >= 1, with (source message, forwarded message)
    c, hd = repo.need_method("fake_trx", "FakeTRX", "handle_data_msg")
    ps = params(hd)
    cfg2 = CFG(hd)
    calls = find_calls(hd, attr="_handle_data_msg_v1")
    L.require("C10.R3", F, "FakeTRX.handle_data_msg", "v1 fields are filled by one call", 1, len(calls))
    for cl in calls:
        lits = guard_literals(cfg2, cfg2.node_of(cl))
        L.ob("C10.R3", F, "FakeTRX.handle_data_msg", "v1 fields are filled for header version >= 1 bursts only",
             "%s.ver >= 1 and not NOPE" % ps[3], lit_fmt(lits), ("%s.ver < 1" % ps[3], False) in lits and ("%s.nope_ind" % ps[3], False) in lits, cl.lineno)
        L.require("C10.R3", F, "FakeTRX.handle_data_msg", "arguments (source message, forwarded message)", [ps[2], ps[3]], [canon(a) for a in cl.args])
    # Modulation.pick_by_bl folded for both GSM burst lengths
    dm = repo.mod("data_msg")
    mci = repo.need_class("data_msg", "Modulation")
    c2, pb = repo.find_method(mci, "pick_by_bl")
    from consteval import ClassRef
    for bl, name in ((148, "ModGMSK"), (444, "Mod8PSK")):
        r = Ev(repo, dm).call_func(pb, dm, [(params(pb)[0], ClassRef(mci)), (params(pb)[1], bl)], self_cls=mci)
        L.require("C10.R3", rel("data_msg"), "Modulation.pick_by_bl", "a %d-bit burst is reported as %s" % (bl, name), name, getattr(r, "name", r))
    # training sequences: table, slices, generators
    with open(os.path.join(VERIF, "spec", "training_seq.json")) as f:
        ref = json.load(f)
    FG = rel("gsm_shared")
    L.unit(FG)
    gs = repo.mod("gsm_shared")
    tci = repo.need_class("gsm_shared", "TrainingSeqGMSK")
    members = Ev(repo, gs).enum_members(tci)
    got = {m.name: {"tsc": m.value[0], "burst_type": getattr(m.value[1], "name", None), "seq": m.value[2]} for m in members}
    for name in sorted(set(got) | set(ref["sequences"])):
        L.require("C10.R3", FG, "TrainingSeqGMSK", "training sequence %s equals the reference copy" % name, ref["sequences"].get(name), got.get(name))
    L.floor("C10.R3", "training sequences", len(got), 20)
    for m in members:
        o = ref["offsets"][m.value[1].name]
        L.ob("C10.R3", FG, "TrainingSeqGMSK", "%s has the length pick() slices for its burst type" % m.name, o["len"], len(m.value[2]),
             len(m.value[2]) == o["len"] and set(m.value[2]) <= {"0", "1"})
        L.ob("C10.R3", FG, "TrainingSeqGMSK", "%s: TSC set recorded for it is 0 (set 1 of the spec counted from zero)" % m.name, 0, m.attrs.get("tsc_set"),
             m.attrs.get("tsc_set") == 0)
    per = {}
    for m in members:
        per.setdefault(m.value[1].name, []).append(m.value[0])
    for bt, tscs in per.items():
        L.ob("C10.R3", FG, "TrainingSeqGMSK", "TSC numbers of %s sequences are unique" % bt, "unique", sorted(tscs), len(set(tscs)) == len(tscs))
    seqs = {}
    for m in members:
        seqs.setdefault(m.value[1].name, []).append(m.value[2])
    for bt, ss in seqs.items():
        L.ob("C10.R3", FG, "TrainingSeqGMSK", "%s sequences are pairwise distinct" % bt, "distinct", len(ss), len(set(ss)) == len(ss))
    # pick(): decided by folding it for witness bursts (every sequence placed at the position of its burst type, in
    # 148- and 444-bit bursts, two sequences of different types at once, no sequence at all); the reference result is
    # the first member in definition order whose sequence equals the burst slice at its type's position
    c3, pk = repo.find_method(tci, "pick")
    if pk is None:
        raise AnalysisError("TrainingSeqGMSK.pick vanished")
    B = params(pk)[1]
    from consteval import ClassRef as _CR

    def ref_pick(burst):
        for m in members:
            o = ref["offsets"][m.value[1].name]
            if bytes(burst[o["start"]:][:o["len"]]) == bytes(int(ch) for ch in m.value[2]):
                return m.name
        return None

    def place(burst, m):
        o = ref["offsets"][m.value[1].name]
        for i, ch in enumerate(m.value[2]):
            burst[o["start"] + i] = int(ch)
        return burst
    wit = [("no training sequence (all zeros)", bytearray(148)), ("no training sequence (all ones)", bytearray([1] * 148))]
    for m in members:
        wit.append(("%s in a 148-bit burst" % m.name, place(bytearray(148), m)))
    for m in members[::5]:
        wit.append(("%s in a 444-bit burst" % m.name, place(bytearray(444), m)))
    by_bt = {}
    for m in members:
        by_bt.setdefault(m.value[1].name, m)
    bts_ = sorted(by_bt)
    for i_ in range(len(bts_)):
        for j_ in range(i_ + 1, len(bts_)):
            wit.append(("%s and %s in one burst" % (by_bt[bts_[i_]].name, by_bt[bts_[j_]].name),
                        place(place(bytearray(148), by_bt[bts_[i_]]), by_bt[bts_[j_]])))
    folded_pick = True
    res = []
    for title, burst in wit:
        try:
            r = Ev(repo, gs).call_func(pk, gs, [(params(pk)[0], _CR(tci)), (B, burst)], self_cls=tci)
        except Unknown:
            folded_pick = False
            break
        except Raised as ex:
            r = "raises %s" % ex.cls
        res.append((title, ref_pick(burst), getattr(r, "name", r)))
    L.extra["c10_pick_folded"] = folded_pick
    if folded_pick:
        for title, want_, got_ in res:
            L.require("C10.R3", FG, "TrainingSeqGMSK.pick", "pick() for %s" % title, want_, got_, line=pk.lineno)
        L.floor("C10.R3", "pick() witness bursts folded", len(res), 25)
    # which slice is compared for which burst type: enumerate the paths of one loop iteration
    # (structural proof for every burst; when the code has another shape the witness fold above decides)
    loops = [n for n in pk.body if isinstance(n, ast.For)]
    if folded_pick:
        L.structural("C10.R3 slices compared by TrainingSeqGMSK.pick (path enumeration of the loop body)",
                     _pick_structure, L, repo, pk, B, gs, ref, FG, loops)
    else:
        _pick_structure(L, repo, pk, B, gs, ref, FG, loops)
    if _generators_fold(L, repo, ref):
        L.structural("C10.R3 length-tracking interpretation of the burst generators", _generators, L, repo, ref)
    else:
        _generators(L, repo, ref)


def _generators_fold(L, repo, ref):
    """gen_nb / gen_sb / gen_ab folded with every training sequence of the burst type handed in (random bits from a
    deterministic oracle): the burst has 148 bits and carries the sequence exactly where pick() looks for it; without a
    sequence the default is drawn from the sequences of the generator's own burst type.  -> False: does not fold"""
    from consteval import Opaque, EnumMember
    FR = rel("rand_burst_gen")
    rm = repo.mod("rand_burst_gen")
    rci = repo.need_class("rand_burst_gen", "RandBurstGen")
    gs = repo.mod("gsm_shared")
    tci = repo.need_class("gsm_shared", "TrainingSeqGMSK")
    members = Ev(repo, gs).enum_members(tci)
    rows = []
    picks = []
    try:
        for meth, bt in (("gen_nb", "NORMAL"), ("gen_sb", "SYNC"), ("gen_ab", "ACCESS")):
            c4, g = repo.find_method(rci, meth)
            if g is None:
                raise AnalysisError("RandBurstGen.%s vanished" % meth)
            start, ln = ref["offsets"][bt]["start"], ref["offsets"][bt]["len"]
            mine = [m for m in members if str(m.attrs.get("bt")).endswith(bt)]
            if not mine:
                return False
            for m in mine:
                cnt = [0]

                def rnd(a, cnt=cnt):
                    cnt[0] += 1
                    return (cnt[0] * 7 // 3) % 2
                e = Ev(repo, rm, env={params(g)[1]: m}, self_cls=rci)
                e.hooks = {"random.randint": rnd, "random.getrandbits": lambda a: 0x5a5a5a5a5a5a5a5a5a5a5a5a5a5a5a5a5a5a5a & ((1 << (a[0] if a else 1)) - 1),
                           "random.random": lambda a: 0.25}
                r = e.run_block(g.body)
                out = r[1] if isinstance(r, tuple) else None
                seq = m.attrs.get("seq")
                rows.append((meth, bt, m.name, (ref["burst_len"], list(seq) if seq is not None else None),
                             (len(out) if hasattr(out, "__len__") else None, list(out[start:start + ln]) if hasattr(out, "__getitem__") else None)))
                # ... and the toolkit's own detector finds that sequence in the generated burst ('TSC / TSC set are those of
                # the training sequence actually present ... such as the toolkit's own burst generator produces')
                c5, pk_ = repo.find_method(tci, "pick")
                if pk_ is not None and hasattr(out, "__getitem__"):
                    from consteval import ClassRef as _CR2
                    try:
                        r2 = Ev(repo, gs).call_func(pk_, gs, [(params(pk_)[0], _CR2(tci)), (params(pk_)[1], bytearray(out))], self_cls=tci)
                        picks.append((meth, bt, m.name, getattr(r2, "name", r2)))
                    except Raised as ex2:
                        picks.append((meth, bt, m.name, "raises %s" % ex2.cls))
            asked = []
            e = Ev(repo, rm, env={params(g)[1]: None}, self_cls=rci)
            e.hooks = {"random.randint": lambda a: 1, "random.getrandbits": lambda a: (1 << (a[0] if a else 1)) - 1, "random.random": lambda a: 0.5,
                       "self.get_rand_tsc": lambda a: (asked.append(a[0]), mine[0])[1]}
            e.run_block(g.body)
            rows.append((meth, bt, "<default>", [bt], [str(getattr(x, "name", x)).split(".")[-1] for x in asked]))
    except (Unknown, Raised):
        return False
    L.unit(FR)
    for meth, bt, nm, want, got in rows:
        L.fn(FR, "RandBurstGen." + meth)
        if nm == "<default>":
            L.require("C10.R3", FR, "RandBurstGen." + meth, "default training sequence is drawn from the %s sequences" % bt, want, got)
        else:
            L.require("C10.R3", FR, "RandBurstGen." + meth, "%s burst generated with %s: 148 bits, the sequence where pick() looks for it" % (bt, nm), want, got)
    for meth, bt, nm, got in picks:
        L.require("C10.R3", FR, "RandBurstGen." + meth, "%s burst generated with %s: TrainingSeqGMSK.pick() finds that sequence in it" % (bt, nm), nm, got)
    L.floor("C10.R3", "generator / training sequence pairs folded", len(rows), 15)
    return True


def _pick_structure(L, repo, pk, B, gs, ref, FG, loops):
    if len(loops) != 1:
        raise AnalysisError("TrainingSeqGMSK.pick: expected one loop over the sequences")
    loopvar = canon(loops[0].target)
    pre = [x for x in pk.body if x.lineno < loops[0].lineno]
    fwp = Fwd(split=True)
    env0 = fwp.run(pre) or {}
    fwl = Fwd(split=True)
    fwl.run(loops[0].body, env0)
    cmpmap = {}

    def slice_of(e):
        """(start, length) of burst[a:][:l] / burst[a:b]"""
        try:
            if isinstance(e, ast.Subscript) and isinstance(e.slice, ast.Slice):
                inner = e.value
                if isinstance(inner, ast.Subscript) and isinstance(inner.slice, ast.Slice) and canon(inner.value) == B:
                    return (fold(repo, gs, inner.slice.lower), fold(repo, gs, e.slice.upper))
                if canon(inner) == B:
                    a_, b_ = fold(repo, gs, e.slice.lower), fold(repo, gs, e.slice.upper)
                    return (a_, b_ - a_)
        except Unknown:
            raise AnalysisError("TrainingSeqGMSK.pick: slice bounds do not fold")
        return None
    for conds, r in fwl.returns:
        if r is None or canon(r) != loopvar:
            continue
        simple = [(t, p) for t, p in conds if " | " not in t and " & " not in t]
        bts = [t for t, p in simple if p and "BurstType." in t and (" is " in t or " == " in t)]
        eqs = [t for t, p in simple if p and " == " in t and "%s.seq" % loopvar in t]
        if len(bts) != 1 or len(eqs) != 1:
            raise AnalysisError("TrainingSeqGMSK.pick: match condition unclassifiable: %s" % (conds,))
        bt = bts[0].split("BurstType.")[1].split(" ")[0]
        cmp_ = ast.parse(eqs[0], mode="eval").body
        other = cmp_.comparators[0] if canon(cmp_.left) == "%s.seq" % loopvar else cmp_.left
        sl_ = slice_of(other)
        if sl_ is None:
            raise AnalysisError("TrainingSeqGMSK.pick: compared slice unclassifiable: %s" % canon(other))
        if bt in cmpmap and cmpmap[bt] != (sl_, loopvar):
            raise AnalysisError("TrainingSeqGMSK.pick: two different slices for %s" % bt)
        cmpmap[bt] = (sl_, loopvar)
    want = {bt: ((o["start"], o["len"]), loopvar) for bt, o in ref["offsets"].items()}
    L.require("C10.R3", FG, "TrainingSeqGMSK.pick", "pick() compares each sequence with the burst slice at its burst type's position and returns the matching member",
              want, cmpmap)
    L.require("C10.R3", FG, "TrainingSeqGMSK.pick", "all sequences are tried", "list(self)" , canon(loops[0].iter).replace("list(cls)", "list(self)"))
    rets = [canon(n.value) for n in pk.body if isinstance(n, ast.Return)]
    L.require("C10.R3", FG, "TrainingSeqGMSK.pick", "no match yields None", ["None"], rets)


def _generators(L, repo, ref):
    # generators: length tracking
    FR = rel("rand_burst_gen")
    L.unit(FR)
    rm = repo.mod("rand_burst_gen")
    rci = repo.need_class("rand_burst_gen", "RandBurstGen")
    for meth, bt in (("gen_nb", "NORMAL"), ("gen_sb", "SYNC"), ("gen_ab", "ACCESS")):
        c4, g = repo.find_method(rci, meth)
        if g is None:
            raise AnalysisError("RandBurstGen.%s vanished" % meth)
        L.fn(FR, "RandBurstGen." + meth)
        off = 0
        ts_at = None
        ts_bt = None
        bufname = None
        for stn in g.body:
            if isinstance(stn, ast.Assign) and isinstance(stn.value, ast.List) and not stn.value.elts:
                bufname = canon(stn.targets[0])
                continue
            if isinstance(stn, ast.If):
                # `if tsc is None: tsc = self.get_rand_tsc(BurstType.X)`
                for c in calls_in(stn):
                    if canon(c.func).endswith("get_rand_tsc") and c.args:
                        ts_bt = canon(c.args[0]).split(".")[-1]
                continue
            if isinstance(stn, ast.AugAssign) and canon(stn.target) == bufname and isinstance(stn.op, ast.Add):
                v = stn.value
                if canon(v).endswith(".seq"):
                    # the default may be drawn inside the expression (`(self.get_rand_tsc(BT) if tsc is None else tsc).seq`)
                    for c in calls_in(v):
                        if canon(c.func).endswith("get_rand_tsc") and c.args:
                            ts_bt = canon(c.args[0]).split(".")[-1]
                    ts_at = off
                    off += ref["offsets"][bt]["len"]
                    continue
                if isinstance(v, ast.BinOp) and isinstance(v.op, ast.Mult) and isinstance(v.left, ast.List) and len(v.left.elts) == 1:
                    off += fold(repo, rm, v.right)
                    continue
                if isinstance(v, ast.ListComp) and len(v.generators) == 1 and isinstance(v.generators[0].iter, ast.Call) \
                        and canon(v.generators[0].iter.func) == "range" and len(v.generators[0].iter.args) == 1:
                    off += fold(repo, rm, v.generators[0].iter.args[0])
                    continue
                raise AnalysisError("%s: list building statement unclassifiable: %s" % (meth, canon(stn)))
            if isinstance(stn, ast.Expr) and isinstance(stn.value, ast.Call) and canon(stn.value.func) == bufname + ".append":
                off += 1
                continue
            if isinstance(stn, ast.Return):
                continue
            if isinstance(stn, ast.Expr) and isinstance(stn.value, ast.Constant):
                continue
            raise AnalysisError("%s: statement unclassifiable: %s" % (meth, canon(stn)[:50]))
        L.require("C10.R3", FR, "RandBurstGen." + meth, "%s burst: the training sequence starts where pick() looks for it" % bt,
                  ref["offsets"][bt]["start"], ts_at)
        L.require("C10.R3", FR, "RandBurstGen." + meth, "%s burst has 148 bits" % bt, ref["burst_len"], off)
        if ts_bt is None:
            raise AnalysisError("RandBurstGen.%s: where the default training sequence is drawn from is not recognised" % meth)
        L.require("C10.R3", FR, "RandBurstGen." + meth, "default training sequence is drawn from the %s sequences" % bt, bt, ts_bt)


def run(L, tier):
    repo = Repo(L.repo)
    L.stage(r1_copy, L, repo)
    L.stage(r2_formulas, L, repo)
    L.stage(r3_mod_tsc, L, repo)
    L.stage(r5_rejected_config, L, repo)
    from pyutil import memo_sound
    L.stage(memo_sound, L, repo, "C10.R6", ("fake_trx", "transceiver", "rand_burst_gen"))
    from pyutil import hdr_ver_ownership
    L.stage(hdr_ver_ownership, L, repo, "C10.R7")
    from cmdfold import sim_cmd_effects
    L.stage(sim_cmd_effects, L, repo, "C10.R8")
