# C01 -- TRXD messages survive encode/decode unchanged (codec symmetry: a
# necessary condition of the round trip, decided for all field values).

import ast
import os
import struct

from report import AnalysisError
from pyfront import Repo, canon, TK
from pyutil import rel, params, return_origins
from consteval import Ev, fold, Unknown, Raised, EnumMember
from layout import Enc, Dec, bitfields, byte_ref, PRESENT, fold_field
from accept import Extractor
from absdom import IntSet, Dom
import exprnf as X

EXPLANATION = (
    "Sibling agreement of encoder and decoder by byte-layout abstract "
    "interpretation: gen_msg (with append_hdr_to/append_burst_to inlined per "
    "class and header version) yields the ordered segment list, parse_msg/"
    "parse_hdr the field<-octet expressions; both must be inverse (same "
    "offsets, struct formats, sign convention, bit positions). Validated "
    "ranges (extracted from validate()) must fit the wire widths. The four "
    "256-entry soft-bit tables, the MTS octet (all 256 values x all valid "
    "(modulation, TSC set, TSC) combinations) and the burst-length rules "
    "(all encodable lengths x legacy padding) are folded completely.")
ASSUMPTIONS = [
    "equality of every field for every concrete message is the runtime round trip itself; decided here are the structural conditions without which some valid message decodes differently",
    "bytes.translate / array('b'|'B') semantics for the table-driven bit conversions",
]
F = rel("data_msg")


_CONST = [None]        # folding of class constants inside encoder expressions (set per class by the caller)


def classify_enc(expr):
    """-> ('field', name, neg) | ('bits', [(field, shift, width)]) | ('call', text)"""
    if isinstance(expr, ast.Attribute) and isinstance(expr.value, ast.Name) and expr.value.id == "self":
        return ("field", expr.attr, False)
    # `x & 0xff` of a whole-octet value is the value itself on the wire (an octet cannot hold more)
    if isinstance(expr, ast.BinOp) and isinstance(expr.op, ast.BitAnd):
        for a_, b_ in ((expr.left, expr.right), (expr.right, expr.left)):
            mv = b_.value if isinstance(b_, ast.Constant) else (_CONST[0](b_) if _CONST[0] else None)
            if mv == 0xff:
                inner = classify_enc(a_)
                if inner[0] == "field":
                    return inner
    if isinstance(expr, ast.UnaryOp) and isinstance(expr.op, ast.USub):
        inner = classify_enc(expr.operand)
        if inner[0] == "field":
            return ("field", inner[1], not inner[2])
    if isinstance(expr, ast.Call):
        return ("call", canon(expr))
    try:
        t = X.PyLower(const=_CONST[0]).lower(expr)
        bf = bitfields(t)
    except AnalysisError:
        return ("other", canon(expr))
    out = []
    for leaf, s, w in bf:
        if leaf[0] == "v" and leaf[1].startswith("self."):
            out.append((leaf[1][5:], s, w))
        else:
            return ("other", canon(expr))
    return ("bits", sorted(out, key=lambda x: -x[1]))


def classify_dec(expr, msg):
    """-> ('byte', k, neg) | ('unpack', fmt, lo, hi) | ('bits', k, shift, width) | ('other', text)"""
    br = byte_ref(expr, msg)
    if br is not None:
        return br + ((False,) if br[0] == "byte" else ())
    if isinstance(expr, ast.UnaryOp) and isinstance(expr.op, ast.USub):
        br = byte_ref(expr.operand, msg)
        if br is not None and br[0] == "byte":
            return ("byte", br[1], True)
    try:
        t = X.PyLower().lower(expr)
        bf = bitfields(t)
    except AnalysisError:
        return ("other", canon(expr))
    if len(bf) == 1:
        leaf, s, w = bf[0]
        if leaf[0] == "idx" and leaf[1] == ("v", msg) and X.is_c(leaf[2]):
            return ("bits", leaf[2][1], -s, w)
    return ("other", canon(expr))


def validated_ranges(repo, clsname, ver):
    """field -> IntSet accepted by validate() for header version `ver` (union over accepting boxes)"""
    import importlib
    c13 = importlib.import_module("rules.c13")
    ci = repo.need_class("data_msg", clsname)
    ex = Extractor(repo, ci, repo.need_class("data_msg", "Modulation"), c13.field_table(repo, ci))
    acc = ex.run("validate")
    out = {}
    for box in acc:
        if box["ver"].ints.meet(IntSet([(ver, ver)])).empty():
            continue
        for f, d in box.items():
            out[f] = out[f].join(d.ints) if f in out else d.ints
    return out


FMT_RANGE = {"B": (0, 255), "b": (-128, 127), ">H": (0, 65535), ">h": (-32768, 32767), ">L": (0, 2 ** 32 - 1),
             ">l": (-2 ** 31, 2 ** 31 - 1), ">I": (0, 2 ** 32 - 1)}


def r1_r2(L, repo):
    L.unit(F)
    mod = repo.mod("data_msg")
    known = list(fold(repo, mod, ast.parse("Msg.KNOWN_VERSIONS", mode="eval").body))
    n_pairs = 0
    n_fields = 0
    for cls in ("TxMsg", "RxMsg"):
        ci = repo.need_class("data_msg", cls)
        for ver in known:
            rng = validated_ranges(repo, cls, ver)
            n_pairs += 1
            fn = "%s v%d" % (cls, ver)
            L.fn(F, cls + ".gen_msg")
            L.fn(F, cls + ".parse_msg")
            def _k(e_, ci=ci):
                # upper-case class constants (masks, limits) fold to their integer value
                if any(isinstance(x, ast.Attribute) and isinstance(x.value, ast.Name) and x.value.id in ("self", "cls") and not x.attr.isupper()
                       for x in ast.walk(e_)) or any(isinstance(x, ast.Name) and x.id not in ("self", "cls") and not x.id.isupper() for x in ast.walk(e_)):
                    return None
                try:
                    v_ = Ev(repo, mod, self_cls=ci).ev(e_)
                    return v_ if isinstance(v_, int) and not isinstance(v_, bool) else None
                except (Unknown, Raised, RecursionError):
                    return None
            _CONST[0] = _k
            enc = Enc(repo, ci, ver, True, False)
            segs = enc.run()
            dec = Dec(repo, ci, ver, True)
            fields = dec.run()
            msg = dec.msg
            L.ob("C01.R1", F, cls + ".gen_msg", "validate() runs before the first octet is produced (%s)" % fn, True,
                 enc.validated_first, enc.validated_first is True)
            hdr_len = Ev(repo, mod, env={"self.ver": ver}, self_cls=ci).ev(ast.parse("self.HDR_LEN", mode="eval").body)
            hdr_bytes = 0
            burst_seg = None
            for s in segs:
                if s.kind == "extend":
                    burst_seg = s
                    break
                hdr_bytes += s.size
            L.require("C01.R1", F, cls + ".gen_msg", "%s: encoder emits exactly HDR_LEN header octets before the burst" % fn,
                      hdr_len, hdr_bytes)
            # per segment
            for s in segs:
                if s.kind in ("extend", "pad"):
                    continue
                ce = classify_enc(s.expr)
                if ce[0] == "field":
                    _, name, neg = ce
                    n_fields += 1
                    d = fields.get(name)
                    if d is None:
                        L.ob("C01.R1", F, cls + ".parse_msg", "%s: field `%s` (octet %d) is decoded at all" % (fn, name, s.off),
                             "assigned by the parser", "not assigned", False)
                        continue
                    cd = classify_dec(d, msg)
                    if s.fmt == "B":
                        want = ("byte", s.off, neg)
                    else:
                        want = ("unpack", s.fmt, s.off, s.off + s.size)
                    if cd != want and cd[0] == "other" and s.size <= 2:
                        # hand-written decoding: decide it by folding over every value of its octets
                        ok_, info = fold_field(repo, mod, d, msg, s.off, s.size, s.fmt, neg)
                        if ok_ is None:
                            raise AnalysisError("C01: decoder expression of `%s` unclassifiable (%s): %s" % (name, info, cd[1][:60]))
                        L.ob("C01.R1", F, cls + ".parse_msg",
                             "%s: field `%s` decodes every value of octets %d..%d as the wire format %s%s prescribes (folded over all %d values)" % (
                                 fn, name, s.off, s.off + s.size - 1, s.fmt, ", negated" if neg else "", 256 ** s.size),
                             "equal for all octet values", info, ok_ is True, dec.field_nodes[name].lineno)
                        continue
                    L.require("C01.R1", F, cls + ".parse_msg",
                              "%s: field `%s` is decoded from where and how it was encoded (offset %d, format %s%s)" % (
                                  fn, name, s.off, s.fmt, ", negated" if neg else ""), want, cd,
                              line=dec.field_nodes[name].lineno)
                    # R2: validated range fits the wire format
                    r = rng.get(name)
                    lo, hi = FMT_RANGE[s.fmt]
                    if r is None or r.empty():
                        L.ob("C01.R2", F, cls + ".validate", "%s: field `%s` has a validated range" % (fn, name), "non-empty", "none", False)
                    else:
                        vals = r if not neg else IntSet([(-b, -a) for a, b in r.iv])
                        L.ob("C01.R2", F, cls + ".validate",
                             "%s: every validated value of `%s`%s is representable in format %s" % (fn, name, " (negated)" if neg else "", s.fmt),
                             "%d..%d" % (lo, hi), repr(vals), vals.subset(IntSet([(lo, hi)])))
                elif ce[0] == "bits":
                    used = 0
                    for (name, sh, w) in ce[1]:
                        n_fields += 1
                        d = fields.get(name)
                        cd = classify_dec(d, msg) if d is not None else None
                        r = rng.get(name)
                        need_w = None
                        if r is not None and not r.empty() and r.iv[-1][1] != float("inf") and r.iv[0][0] >= 0:
                            need_w = max(1, int(r.iv[-1][1]).bit_length())
                        L.ob("C01.R2", F, cls + ".gen_msg",
                             "%s: `%s` (validated %s) fits the bits it is packed into at octet %d (shift %d%s) without loss" % (
                                 fn, name, r, s.off, sh, ", mask %d bits" % w if w else ""),
                             "needs %s bits" % need_w, "has %s" % (w if w else "unmasked"),
                             need_w is not None and (w is None or w >= need_w) and sh + need_w <= 8)
                        if need_w is not None:
                            maskbits = ((1 << need_w) - 1) << sh
                            L.ob("C01.R1", F, cls + ".gen_msg", "%s: bit fields packed into octet %d do not overlap (`%s`)" % (fn, s.off, name),
                                 "disjoint", "%#x vs %#x" % (maskbits, used), maskbits & used == 0)
                            used |= maskbits
                        if cd is None:
                            L.ob("C01.R1", F, cls + ".parse_msg", "%s: field `%s` is decoded" % (fn, name), "assigned", "not assigned", False)
                            continue
                        ok = cd[0] == "bits" and cd[1] == s.off and cd[2] == sh and (
                            need_w is not None and (cd[3] is None and sh + need_w <= 8 and sh + 8 - sh >= need_w or
                                                    (cd[3] is not None and cd[3] >= need_w)))
                        # an unmasked right shift reads all bits above: fine only if nothing else is packed above
                        if cd[0] == "bits" and cd[3] is None:
                            above = [x for x in ce[1] if x[1] > sh]
                            ok = ok and not above
                        L.ob("C01.R1", F, cls + ".parse_msg",
                             "%s: `%s` is extracted from the bits it was packed into (octet %d, shift %d)" % (fn, name, s.off, sh),
                             ("bits", s.off, sh, ">= %s wide" % need_w), cd, ok,
                             dec.field_nodes[name].lineno if name in dec.field_nodes else None)
                elif ce[0] == "call" and ce[1] == "self.gen_mts()":
                    n_fields += 1
                    calls = [(nm, [canon(a) for a in args]) for nm, args, _ in dec.calls if nm == "parse_mts"]
                    L.require("C01.R1", F, cls + ".parse_msg", "%s: MTS octet is parsed from the offset it was written to (%d)" % (fn, s.off),
                              [("parse_mts", ["%s[%d]" % (msg, s.off)])], calls)
                else:
                    raise AnalysisError("C01: encoder expression unclassifiable at octet %s: %s" % (s.off, ce))
            # burst: starts at HDR_LEN on both sides
            if burst_seg is None:
                L.ob("C01.R1", F, cls + ".gen_msg", "%s: burst is appended after the header" % fn, "extend", "missing", False)
            else:
                L.require("C01.R1", F, cls + ".gen_msg", "%s: burst starts at octet HDR_LEN" % fn, hdr_len, burst_seg.off)
                src = canon(dec.burst_src) if dec.burst_src is not None else None
                L.require("C01.R1", F, cls + ".parse_msg", "%s: decoder takes the burst from octet HDR_LEN on" % fn,
                          "memoryview(%s)[%d:]" % (msg, hdr_len), src.replace("[self.HDR_LEN:]", "[%d:]" % hdr_len) if src else src)
                want_enc = "self.burst" if cls == "TxMsg" else "self.sbit2usbit(self.burst)"
                # decided by folding the appended expression for bursts that carry every legal item value: hard bits go
                # out as they are, soft bits s as the octet 127 - s, in order
                from consteval import Arr
                if cls == "TxMsg":
                    wit = [bytearray([0, 1, 1, 0, 1, 0, 0, 0, 1] * 17)[:148]]
                    wants = [bytes(wit[0])]
                else:
                    vals = list(range(-127, 128))
                    wit = [Arr("b", vals[:148]), Arr("b", vals[107:])]
                    wants = [bytes(127 - x for x in w) for w in wit]
                folded = True
                for w, wb in zip(wit, wants):
                    try:
                        got = Ev(repo, ci.mod, env={"self.burst": w, "self.ver": ver}, self_cls=ci).ev(burst_seg.expr)
                        got = got.tobytes() if isinstance(got, Arr) else bytes(got) if isinstance(got, (bytes, bytearray, list)) else got
                    except Raised as ex:
                        got = "raises %s" % ex.cls
                    except (Unknown, ValueError, TypeError):
                        folded = False
                        break
                    L.ob("C01.R1", F, cls + ".append_burst_to", "%s: burst coding on the wire (%s)" % (
                        fn, "hard bits unchanged" if cls == "TxMsg" else "soft bits %d..%d as octets 127 - s" % (w[0], w[-1])),
                        wb[:6].hex() + "...", got[:6].hex() + "..." if isinstance(got, bytes) else got, got == wb, getattr(burst_seg.node, "lineno", None) if hasattr(burst_seg, "node") else None)
                if folded:
                    L.structural("C01.R1 %s burst coding through %s" % (fn, want_enc), L.require, "C01.R1", F, cls + ".append_burst_to",
                                 "%s: burst coding on the wire" % fn, want_enc, canon(burst_seg.expr))
                else:
                    L.require("C01.R1", F, cls + ".append_burst_to", "%s: burst coding on the wire" % fn, want_enc, canon(burst_seg.expr))
            # legacy padding: v0 only, 2 octets, after the burst
            enc2 = Enc(repo, ci, ver, True, True)
            segs2 = enc2.run()
            pads = [s.size for s in segs2 if s.kind == "pad"]
            L.require("C01.R5", F, cls + ".gen_msg", "%s: legacy padding appended (octets)" % fn, [2] if ver == 0 else [], pads)
            if pads:
                L.ob("C01.R5", F, cls + ".gen_msg", "%s: padding follows the burst" % fn, "last segment", segs2[-1].kind, segs2[-1].kind == "pad")
            # NOPE / no burst: nothing after the header; decoder yields None
            if cls == "RxMsg":
                enc3 = Enc(repo, ci, ver, False, False, nope=True)
                segs3 = enc3.run()
                L.ob("C01.R5", F, cls + ".gen_msg", "%s: without a burst nothing follows the header" % fn, "no extend segment",
                     [s.kind for s in segs3], all(s.kind != "extend" for s in segs3))
                dec3 = Dec(repo, ci, ver, False)
                f3 = dec3.run()
                L.require("C01.R5", F, cls + ".parse_msg", "%s: a datagram of exactly HDR_LEN octets decodes to burst = None" % fn,
                          "None", canon(f3["burst"]) if "burst" in f3 else None)
    L.floor("C01.R1", "class x version layout pairs", n_pairs, 4)
    L.floor("C01.R1", "header fields compared", n_fields, 11)


def r3_tables(L, repo):
    mod = repo.mod("data_msg")
    ci = repo.need_class("data_msg", "Msg")
    tabs = {}
    for name in ("_tab_usbit2sbit", "_tab_sbit2usbit", "_tab_sbit2ubit", "_tab_ubit2sbit"):
        c, v = repo.find_attr(ci, name)
        if v is None:
            raise AnalysisError("table %s vanished" % name)
        try:
            t = Ev(repo, mod, self_cls=ci).ev(v)
        except (Unknown, Raised) as e:
            raise AnalysisError("table %s does not fold: %s" % (name, e))
        if isinstance(t, (bytes, bytearray)):
            t = list(t)
        if not isinstance(t, list) or len(t) != 256 or not all(isinstance(x, int) and -128 <= x <= 255 for x in t):
            raise AnalysisError("table %s has no 256 octet entries" % name)
        # a translate() table acts through its octets; the signed tables are read back through array('b'), i.e. as
        # two's complement - whether the table was written with signed entries or with their octet values
        octs = [x & 0xff for x in t]
        signed = name in ("_tab_usbit2sbit", "_tab_ubit2sbit")
        tabs[name] = [(o - 256 if o >= 128 else o) for o in octs] if signed else octs
    us2s, s2us, s2u, u2s = (tabs[n] for n in ("_tab_usbit2sbit", "_tab_sbit2usbit", "_tab_sbit2ubit", "_tab_ubit2sbit"))
    # index of a signed soft bit s in a translate table = its octet value (s & 0xff)
    bad = [s for s in range(-127, 128) if us2s[s2us[s & 0xff]] != s]
    L.ob("C01.R3", F, "Msg", "usbit2sbit[sbit2usbit[s]] == s for every soft bit s in -127..127 (255 table entries)", [], bad[:5], not bad)
    bad = [s for s in range(-127, 128) if not (0 <= s2us[s & 0xff] <= 254) or s2us[s & 0xff] != 127 - s]
    L.ob("C01.R3", F, "Msg", "sbit2usbit[s] == 127 - s in 0..254 for every s in -127..127", [], bad[:5], not bad)
    bad = [u for u in range(0, 255) if us2s[u] != 127 - u] + ([255] if us2s[255] != -127 else [])
    L.ob("C01.R3", F, "Msg", "usbit2sbit[u] == 127 - u for u in 0..254 and 255 -> -127", [], bad[:5], not bad)
    L.require("C01.R3", F, "Msg", "ubit2sbit maps 0 -> +127 and 1 -> -127 (full-confidence soft bits of the matching sign)", (127, -127),
              (u2s[0], u2s[1]))
    bad = [b for b in (0, 1) if s2u[u2s[b] & 0xff] != b]
    L.ob("C01.R3", F, "Msg", "sbit2ubit[ubit2sbit[b]] == b for b in {0, 1}", [], bad, not bad)
    bad = [s for s in range(-127, 128) if s2u[s & 0xff] != (1 if s < 0 else 0)]
    L.ob("C01.R3", F, "Msg", "sbit2ubit[s] == (s < 0) for every s in -127..127", [], bad[:5], not bad)
    # the conversion helpers use their own table
    for meth, tab, tc in (("usbit2sbit", "_tab_usbit2sbit", "b"), ("sbit2usbit", "_tab_sbit2usbit", "B"),
                          ("sbit2ubit", "_tab_sbit2ubit", None), ("ubit2sbit", "_tab_ubit2sbit", "b")):
        c, m = repo.find_method(ci, meth)
        if m is None:
            raise AnalysisError("Msg.%s vanished" % meth)
        rets = [canon(n.value) for n in ast.walk(m) if isinstance(n, ast.Return)]
        ok = len(rets) == 1 and ("translate(Msg.%s)" % tab) in rets[0] and (tc is None or rets[0].startswith("array('%s'" % tc))
        L.ob("C01.R3", F, "Msg." + meth, "%s() translates through its own table%s" % (meth, " into array('%s')" % tc if tc else ""),
             "...translate(Msg.%s)" % tab, rets, ok)
    return tabs


def r4_mts(L, repo):
    mod = repo.mod("data_msg")
    ci = repo.need_class("data_msg", "RxMsg")
    mci = repo.need_class("data_msg", "Modulation")
    ev0 = Ev(repo, mod, self_cls=ci)
    members = ev0.enum_members(mci)
    c, gen = repo.find_method(ci, "gen_mts")
    c2, par = repo.find_method(ci, "parse_mts")
    if gen is None or par is None:
        raise AnalysisError("gen_mts/parse_mts vanished")
    P = params(par)[1]

    def parse(octet):
        e = Ev(repo, mod, env={}, self_cls=ci)
        sub = Ev(repo, mod, env={P: octet}, self_cls=ci)
        try:
            sub.run_block(par.body)
        except (Unknown, Raised) as ex:
            raise AnalysisError("parse_mts does not fold for octet %#x: %s" % (octet, ex))
        return {k[5:]: v for k, v in sub.env.items() if isinstance(k, str) and k.startswith("self.")}
    n = 0
    bad = []
    seen_octets = {}
    for m in members:
        nset = 4 if m.name == "ModGMSK" else 2
        for ts in range(nset):
            for tsc in range(8):
                env = {"self.nope_ind": False, "self.tsc": tsc, "self.tsc_set": ts, "self.mod_type": m}
                try:
                    r = Ev(repo, mod, env=env, self_cls=ci).run_block(gen.body)
                except (Unknown, Raised) as ex:
                    raise AnalysisError("gen_mts does not fold: %s" % ex)
                octet = r[1]
                n += 1
                if not (isinstance(octet, int) and 0 <= octet <= 255):
                    bad.append((m.name, ts, tsc, octet))
                    continue
                if octet in seen_octets and seen_octets[octet] != (m.name, ts, tsc):
                    bad.append(("collision", seen_octets[octet], (m.name, ts, tsc), octet))
                seen_octets[octet] = (m.name, ts, tsc)
                d = parse(octet)
                got = (d.get("nope_ind"), d.get("mod_type"), d.get("tsc_set"), d.get("tsc"))
                if got != (False, m, ts, tsc):
                    bad.append((m.name, ts, tsc, "%#x" % octet, str(got)))
    L.ob("C01.R4", F, "RxMsg.gen_mts/parse_mts",
         "parse_mts(gen_mts(x)) == x for every valid (modulation, TSC set, TSC) combination (%d combinations), octets distinct" % n,
         [], bad[:4], not bad)
    L.floor("C01.R4", "MTS combinations folded", n, 100)
    # NOPE
    r = Ev(repo, mod, env={"self.nope_ind": True, "self.tsc": None, "self.tsc_set": None, "self.mod_type": None},
           self_cls=ci).run_block(gen.body)
    d = parse(r[1])
    L.require("C01.R4", F, "RxMsg.gen_mts/parse_mts", "NOPE indication: MTS octet 0x80 and parse yields nope_ind with no modulation/TSC",
              (0x80, True, None, None, None), (r[1], d.get("nope_ind"), d.get("mod_type"), d.get("tsc_set"), d.get("tsc")))
    # every octet with the NOPE bit parses as NOPE; parse never raises for any octet
    bad = [o for o in range(256) if (parse(o).get("nope_ind") is True) != (o >= 0x80)]
    L.ob("C01.R4", F, "RxMsg.parse_mts", "all 256 MTS octets parse without exception; NOPE iff bit 7", [], bad[:5], not bad)
    return members


def r5_burst_len(L, repo, members):
    mod = repo.mod("data_msg")
    tci = repo.need_class("data_msg", "TxMsg")
    rci = repo.need_class("data_msg", "RxMsg")
    c, pb = repo.find_method(tci, "parse_burst")
    P = params(pb)[1]
    G = fold(repo, mod, ast.parse("GMSK_BURST_LEN", mode="eval").body)
    E = fold(repo, mod, ast.parse("EDGE_BURST_LEN", mode="eval").body)
    L.require("C01.R5", rel("gsm_shared"), "<module>", "GMSK / EDGE burst lengths", (148, 444), (G, E))
    for bl in (G, E):
        for pad in (0, 2):
            sub = Ev(repo, mod, env={P: bytes(bl + pad)}, self_cls=tci)
            try:
                sub.run_block(pb.body)
                got = sub.env.get("self.burst")
                got = len(got) if got is not None else None
            except Raised as ex:
                got = "raises %s" % ex.cls
            except Unknown as ex:
                raise AnalysisError("TxMsg.parse_burst does not fold: %s" % ex)
            L.require("C01.R5", F, "TxMsg.parse_burst", "Tx burst of %d bits%s decodes to %d bits" % (bl, " + 2 legacy octets" if pad else "", bl),
                      bl, got)
    c, pv0 = repo.find_method(rci, "_parse_burst_v0")
    P0 = params(pv0)[1]
    bls = sorted({m.attrs["bl"] for m in members})
    amb = [(a, b) for a in bls for b in bls if a + 2 == b]
    L.ob("C01.R5", F, "Modulation", "legacy strip is unambiguous: no two burst lengths differ by 2", [], amb, not amb)
    for bl in (G, E):
        for pad in (0, 2):
            sub = Ev(repo, mod, env={P0: [0] * (bl + pad)}, self_cls=rci)
            try:
                r = sub.run_block(pv0.body)
                got = len(r[1])
            except Raised as ex:
                got = "raises %s" % ex.cls
            except Unknown as ex:
                raise AnalysisError("_parse_burst_v0 does not fold: %s" % ex)
            L.require("C01.R5", F, "RxMsg._parse_burst_v0", "v0 Rx burst of %d soft bits%s decodes to %d soft bits" % (
                bl, " + 2 legacy octets" if pad else "", bl), bl, got)
    # v1: burst taken as is (length = what was sent); parse_burst calls the v0 strip only for version 0
    c, pbr = repo.find_method(rci, "parse_burst")
    PB = params(pbr)[1]
    for ver in (0, 1):
        sub = Ev(repo, mod, env={"self.ver": ver}, self_cls=rci)
        calls = []
        for st in pbr.body:
            if isinstance(st, ast.If):
                try:
                    v = sub.ev(st.test)
                except (Unknown, Raised):
                    raise AnalysisError("RxMsg.parse_burst: condition does not fold")
                if v:
                    calls += [canon(x) for x in st.body]
        L.require("C01.R5", F, "RxMsg.parse_burst", "legacy strip applied for version %d" % ver,
                  ["%s = self._parse_burst_v0(%s)" % (PB, PB)] if ver == 0 else [], calls)
    rets = [canon(n.value) for n in ast.walk(pbr) if isinstance(n, ast.Assign) and canon(n.targets[0]) == "self.burst"]
    # decided by folding parse_burst (version 1: nothing is stripped) for bursts that carry every octet value 0..255:
    # each received unsigned soft bit u comes back as 127 - u (255 as -127), in order, as signed items
    folded = True
    for lo in (0, 108):
        data = bytes(range(lo, lo + G))
        sub = Ev(repo, mod, env={PB: data, "self.ver": 1}, self_cls=rci)
        try:
            sub.run_block(pbr.body)
            got = sub.env.get("self.burst")
            got = list(got) if isinstance(got, list) else got
        except Raised as ex:
            got = "raises %s" % ex.cls
        except Unknown:
            folded = False
            break
        want = [(-127 if u == 255 else 127 - u) for u in data]
        L.ob("C01.R5", F, "RxMsg.parse_burst", "received unsigned soft bits %d..%d are converted back to soft bits 127 - u (255 -> -127), in order" % (lo, lo + G - 1),
             want[:4] + ["..."], got[:4] + ["..."] if isinstance(got, list) else got, got == want, pbr.lineno)
    if folded:
        L.structural("C01.R5 RxMsg.parse_burst converts through usbit2sbit", L.require, "C01.R5", F, "RxMsg.parse_burst",
                     "received unsigned soft bits are converted back with usbit2sbit", ["self.usbit2sbit(%s)" % PB], rets)
    else:
        L.require("C01.R5", F, "RxMsg.parse_burst", "received unsigned soft bits are converted back with usbit2sbit",
                  ["self.usbit2sbit(%s)" % PB], rets)


def r6b_decoded_ownership(L, repo):
    """R6 (a decoded message keeps its own field values): what parse_burst() stores in `self.burst` is created during
    the call.  parse_msg() hands it a memoryview of the datagram; a slice of that argument (or the argument itself) is a
    VIEW of the caller's receive buffer - the burst of a message that is still held (the transmit queue holds them
    for two frames) would change when the buffer is reused for the next datagram."""
    n = 0
    for cname in ("TxMsg", "RxMsg"):
        ci = repo.need_class("data_msg", cname)
        c, m = repo.find_method(ci, "parse_burst")
        if m is None:
            raise AnalysisError("%s.parse_burst vanished" % cname)
        stores = [x for x in ast.walk(m) if isinstance(x, ast.Assign) and any(canon(t) == "self.burst" for t in x.targets)]
        L.floor("C01.R6", "stores to self.burst in %s.parse_burst" % cname, len(stores), 1)
        fn = "%s.parse_burst" % cname
        L.fn(F, fn)
        for st in stores:
            kinds = list(return_origins(repo, c, m, exprs=[st.value]))
            n += 1
            bad = [(k, t) for k, _n, t, _e in kinds if k in ("param", "shared")]
            unk = [(k, t) for k, _n, t, _e in kinds if k == "unknown"]
            if unk and not bad:
                raise AnalysisError("%s: ownership of `%s` is not classifiable (%s)" % (fn, canon(st.value)[:50], unk[0][1]))
            L.ob("C01.R6", F, fn, "the decoded burst `%s` is storage created by the decoder (not a view of the datagram handed in)" % canon(st.value)[:60],
                 "fresh object (bytearray(...), array(...), a conversion helper's result)", sorted({t for k, t in bad})[:3] or "fresh", not bad, st.lineno)
    return n


def r6_ownership(L, repo):
    """R6: the datagram returned by gen_msg() belongs to the caller. A message encoded earlier must still decode
    to its own field values after any later encode, so gen_msg may not hand out storage that outlives the call
    (a class/instance/module-level buffer)."""
    n = 0
    for cname in ("Msg", "TxMsg", "RxMsg"):
        ci = repo.need_class("data_msg", cname)
        c, m = repo.find_method(ci, "gen_msg")
        if m is None:
            raise AnalysisError("data_msg.%s.gen_msg vanished" % cname)
        if c is not ci and cname != "Msg":
            continue
        L.fn(rel("data_msg"), "%s.gen_msg" % c.name)
        for kind, node, text, ret in return_origins(repo, c, m):
            n += 1
            if kind == "unknown":
                raise AnalysisError("gen_msg: origin of the returned value is not classifiable: %s" % text)
            L.ob("C01.R6", rel("data_msg"), "%s.gen_msg" % c.name,
                 "returned datagram originates from `%s`" % text, "storage created during the call",
                 kind, kind == "fresh", line=getattr(ret, "lineno", None))
    L.floor("C01.R6", "origins of gen_msg's return value", n, 1)


def r8_roundtrip(L, repo):
    """R8 (decode(encode(m)) equals m in every field; encoding does not change m; encoding is a function of the fields):
    gen_msg() and parse_msg() of both message classes are folded END TO END by the checker's evaluator on witness messages
    chosen at the corners of the field domains - both header versions, frame number 0 / maximum, every modulation,
    all-zero / all-one / alternating bursts of 148 and 444 bits (an all-zero burst is a frequency-correction burst),
    soft-bit extremes, NOPE indications, with and without legacy padding.  Required per witness: the decoded fields equal
    the encoded ones; the message's fields are the same after encoding; a second encoding gives the same octets; after
    changing one burst element in place a new encoding decodes to the changed burst (no stale pre-encoded copy)."""
    from consteval import Arr, EnumMember, Opaque
    FD = rel("data_msg") if "rel" in globals() else F
    mod = repo.mod("data_msg")
    mci = repo.need_class("data_msg", "Modulation")
    members = {m.name: m for m in Ev(repo, mod).enum_members(mci)}
    HYPER = fold(repo, repo.mod("gsm_shared"), ast.parse("GSM_HYPERFRAME", mode="eval").body)

    def digest(l):
        import zlib
        return l if len(l) <= 8 else "%d elements, first %s, crc %08x" % (len(l), l[:4], zlib.crc32(repr(l).encode()))

    def norm(v):
        if isinstance(v, Arr):
            return digest(list(v))
        if isinstance(v, (bytes, bytearray)):
            return digest(list(v))
        if isinstance(v, EnumMember):
            return "Modulation." + v.name
        return v

    def fields_of(e, keys):
        out = {}
        for k in keys:
            if "self." + k in e.env:
                out[k] = norm(e.env["self." + k])
            else:
                try:
                    out[k] = norm(e.class_attr(e.self_cls, k))
                except (Unknown, Raised):
                    out[k] = "<unset>"
        return out

    def encode(ci, e, legacy):
        c, g = repo.find_method(ci, "gen_msg")
        kw = {"legacy": legacy} if any(a.arg == "legacy" for a in g.args.args + g.args.kwonlyargs) else {}
        return bytes(e.call_func(g, c.mod, e._bindargs(g, ["<self>"], kw), self_cls=ci, writeback=True))

    def decode(ci, data, into=None):
        e2 = into
        if e2 is None:
            e2 = Ev(repo, ci.mod, env={}, self_cls=ci)
            e2.ignore_calls = ("log.", "logging.")
            # a decoder object starts as the constructor leaves it (all arguments defaulted)
            try:
                c0, i0 = repo.find_method(ci, "__init__")
                e2.call_func(i0, c0.mod, e2._bindargs(i0, ["<self>"], {}), self_cls=ci, writeback=True)
            except (Unknown, Raised, TypeError, KeyError, AttributeError):
                e2 = Ev(repo, ci.mod, env={}, self_cls=ci)
                e2.ignore_calls = ("log.", "logging.")
        c, p = repo.find_method(ci, "parse_msg")
        e2.call_func(p, c.mod, e2._bindargs(p, ["<self>", bytearray(data)], {}), self_cls=ci, writeback=True)
        return e2
    wit = []
    b148 = {"zeros": [0] * 148, "ones": [1] * 148, "alt": [1, 0] * 74}
    b444 = {"zeros": [0] * 444, "mix": [1, 1, 0] * 148}
    for ver in (0, 1):
        for (bn, bits) in list(b148.items()) + list(b444.items()):
            for legacy in (False, True):
                wit.append(("TxMsg", "v%d %d-bit burst (%s)%s" % (ver, len(bits), bn, " legacy" if legacy else ""),
                            {"ver": ver, "fn": HYPER - 1 if bn == "ones" else 0 if bn == "zeros" else 1234, "tn": 7 if bn == "alt" else 0,
                             "pwr": 255 if bn == "ones" else 0, "burst": bytearray(bits)}, legacy))
    s148 = {"max": [127] * 148, "min": [-127] * 148, "ramp": [((i * 7) % 255) - 127 for i in range(148)]}
    s444 = {"max": [127] * 444, "ramp": [((i * 5) % 255) - 127 for i in range(444)]}
    for (bn, sb) in list(s148.items()) + list(s444.items()):
        for legacy in (False, True):
            wit.append(("RxMsg", "v0 %d soft bits (%s)%s" % (len(sb), bn, " legacy" if legacy else ""),
                        {"ver": 0, "fn": 0 if bn == "max" else HYPER - 1, "tn": 5, "rssi": -47 if bn == "max" else -120, "toa256": -32768 if bn == "min" else 32767,
                         "burst": Arr("b", sb)}, legacy))
    for mname, m in sorted(members.items()):
        bl = m.attrs.get("bl")
        if not isinstance(bl, int):
            continue
        wit.append(("RxMsg", "v1 %s burst" % mname, {"ver": 1, "fn": 42, "tn": 1, "rssi": -80, "toa256": -1, "mod_type": m,
                                                     "tsc_set": 1, "tsc": 7, "ci": -1280 if bl > 148 else 0, "nope_ind": False,
                                                     "burst": Arr("b", [((i * 3) % 255) - 127 for i in range(bl)])}, False))
    wit.append(("RxMsg", "v1 NOPE indication", {"ver": 1, "fn": HYPER - 1, "tn": 0, "rssi": -110, "toa256": 0, "ci": 1280, "nope_ind": True, "burst": None}, False))
    keys = {"TxMsg": ["ver", "fn", "tn", "pwr", "burst"], "RxMsg": ["ver", "fn", "tn", "rssi", "toa256", "nope_ind", "mod_type", "tsc_set", "tsc", "ci", "burst"]}
    n = 0
    encoded = {}
    for cls, title, flds, legacy in wit:
        ci = repo.need_class("data_msg", cls)
        fn_ = cls + ".gen_msg / parse_msg"
        cmp_keys = [k for k in keys[cls] if k in flds]
        try:
            e = Ev(repo, ci.mod, env={"self." + k: v for k, v in flds.items()}, self_cls=ci)
            e.ignore_calls = ("log.", "logging.")
            before = fields_of(e, cmp_keys)
            data = encode(ci, e, legacy)
            after = fields_of(e, cmp_keys)
            dec = fields_of(decode(ci, data), cmp_keys)
            data2 = encode(ci, e, legacy)
            mutated = None
            if flds.get("burst") is not None:
                b = e.env["self.burst"]
                b[0] = (1 - b[0]) if cls == "TxMsg" else (-b[0] if b[0] else 5)
                want_m = norm(b)
                mutated = (want_m, fields_of(decode(ci, encode(ci, e, legacy)), ["burst"])["burst"])
        except Unknown as ex:
            raise AnalysisError("round trip of %s (%s) does not fold: %s" % (cls, title, ex))
        except Raised as ex:
            L.ob("C01.R8", FD, fn_, "%s %s: encodes and decodes" % (cls, title), "no exception", "raises %s" % ex.cls, False)
            continue
        n += 1
        encoded.setdefault(cls, []).append((title, data, before, cmp_keys))
        L.require("C01.R8", FD, fn_, "%s %s: decoding the encoding returns every field" % (cls, title), before, dec)
        L.require("C01.R8", FD, fn_, "%s %s: encoding leaves the message's fields as they were" % (cls, title), before, after)
        L.ob("C01.R8", FD, fn_, "%s %s: encoding twice gives the same octets" % (cls, title), "identical", "identical" if data == data2 else
             "%d vs %d octets / different content" % (len(data), len(data2)), data == data2)
        if mutated is not None:
            L.ob("C01.R8", FD, fn_, "%s %s: after changing a burst element in place the next encoding carries the changed burst" % (cls, title),
                 "the changed burst", "the changed burst" if mutated[0] == mutated[1] else "another burst (%s)" % (mutated[1],),
                 mutated[0] == mutated[1])
    L.floor("C01.R8", "witness messages folded end to end", n, 30)
    # A decoder object is used for one datagram after the other (DATADumpFile, a per-interface message): what a message
    # decodes to must not depend on what the object decoded before - longer burst before shorter, burst before NOPE /
    # header-only, one header version before the other.
    for cls, lst in sorted(encoded.items()):
        ci = repo.need_class("data_msg", cls)
        fn_ = cls + ".parse_msg"
        pick, seen_k = [], set()
        for title, data, before, ck in lst:
            k = (before.get("ver"), len(data), before.get("nope_ind"))
            if k not in seen_k and "legacy" not in title:
                seen_k.add(k)
                pick.append((title, data, before, ck))
        pick = pick[:6]
        # ... nor on datagrams it REFUSED before (whatever a refused datagram left behind - in the object or in
        # module-level lookup state - the next valid one decodes as if it had come first)
        junk = []
        if pick:
            d0 = pick[0][1]
            hl = 6 if cls == "TxMsg" else 8
            junk = [("a refused datagram (header + 10 octets)", bytes(d0[:hl]) + bytes(10), None, None),
                    ("a refused datagram (header + 8 octets)", bytes(d0[:hl]) + bytes(8), None, None),
                    ("a refused datagram (truncated header)", bytes(d0[:hl - 3]), None, None),
                    ("a refused datagram (header version 15)", bytes([0xf0 | (d0[0] & 0x0f)]) + bytes(d0[1:]), None, None)]
        for ta, da, _ba, _ka in pick + junk:
            for tb, db, bb, kb in pick:
                if ta == tb:
                    continue
                try:
                    e2 = decode(ci, bytes(d0[:0]) if False else da) if _ba is not None else None
                    if e2 is None:
                        e2 = Ev(repo, ci.mod, env={}, self_cls=ci)
                        e2.ignore_calls = ("log.", "logging.")
                        try:
                            c0, i0 = repo.find_method(ci, "__init__")
                            e2.call_func(i0, c0.mod, e2._bindargs(i0, ["<self>"], {}), self_cls=ci, writeback=True)
                        except (Unknown, Raised, TypeError, KeyError, AttributeError):
                            pass
                        try:
                            decode(ci, da, into=e2)
                            continue        # (the datagram was not refused after all: not this clause's matter)
                        except Raised:
                            pass
                    got = fields_of(decode(ci, db, into=e2), kb)
                except (Unknown, Raised):
                    continue        # (single decodes are decided above; a sequence that does not fold adds nothing)
                L.require("C01.R8", FD, fn_, "%s decoded into an object that held `%s` before: every field is the new message's (`%s`)" % (cls, ta, tb),
                          bb, got)
    # ... nor on what ANOTHER decoder object (of either class) decoded before: class-level and module-level state (a latch
    # set by a legacy-padded datagram, a lookup memo) is shared by all message objects of the process
    def _legacy_first(lst):
        a = [x for x in lst if "legacy" in x[0]][:2]
        b = []
        seen_ = set()
        for x in lst:
            k_ = (x[2].get("ver"), len(x[1]))
            if "legacy" not in x[0] and k_ not in seen_:
                seen_.add(k_)
                b.append(x)
        return a + b[:3]
    for cls_a, cls_b in (("RxMsg", "TxMsg"), ("TxMsg", "RxMsg"), ("RxMsg", "RxMsg"), ("TxMsg", "TxMsg")):
        if cls_a not in encoded or cls_b not in encoded:
            continue
        cia, cib = repo.need_class("data_msg", cls_a), repo.need_class("data_msg", cls_b)
        for ta, da, _ba, _ka in _legacy_first(encoded[cls_a]):
            for tb, db, bb, kb in _legacy_first(encoded[cls_b])[2:] if cls_a == cls_b else _legacy_first(encoded[cls_b]):
                if "legacy" in tb or (cls_a == cls_b and "legacy" not in ta):
                    continue        # (same class, both unpadded: decided above on one object)
                try:
                    ea = decode(cia, da)
                    eb = Ev(repo, cib.mod, env={k_: v_ for k_, v_ in ea.env.items() if not k_.startswith("self.") and "." in k_}, self_cls=cib)
                    eb.gstate = ea.gstate
                    eb.ignore_calls = ("log.", "logging.")
                    try:
                        c0, i0 = repo.find_method(cib, "__init__")
                        eb.call_func(i0, c0.mod, eb._bindargs(i0, ["<self>"], {}), self_cls=cib, writeback=True)
                    except (Unknown, Raised, TypeError, KeyError, AttributeError):
                        pass
                    got = fields_of(decode(cib, db, into=eb), kb)
                except Unknown:
                    continue
                except Raised as ex:
                    got = "decoding raises %s" % ex.cls
                L.require("C01.R8", FD, cls_b + ".parse_msg", "%s `%s` decoded after another object decoded the %s `%s`: every field is the message's own" % (
                    cls_b, tb, cls_a, ta), bb, got)
    # The property quantifies over the messages THE TOOLKIT accepts as valid, not over the protocol ranges: whatever
    # validate() accepts beyond them (C13 decides whether it should) has to survive its own encoding as well.
    for cls, title, flds in _accepted_extras(L, repo, members, HYPER):
        ci = repo.need_class("data_msg", cls)
        fn_ = cls + ".gen_msg / parse_msg"
        cmp_keys = [k for k in keys[cls] if k in flds]
        for legacy in ((False, True) if flds.get("ver") == 0 else (False,)):
            try:
                e = Ev(repo, ci.mod, env={"self." + k: v for k, v in flds.items()}, self_cls=ci)
                e.ignore_calls = ("log.", "logging.")
                before = fields_of(e, cmp_keys)
                data = encode(ci, e, legacy)
                try:
                    dec = fields_of(decode(ci, data), cmp_keys)
                except Raised as ex:
                    dec = "decoding raises %s" % ex.cls
            except (Unknown, Raised):
                continue        # not evaluable / accepted but not encodable: no encoding to decode (C13's and C14's matter)
            L.require("C01.R8", FD, fn_, "%s accepted by validate() beyond the protocol ranges (%s)%s: decoding the encoding returns every field" % (
                cls, title, " with legacy padding" if legacy else ""), before, dec)


def _accepted_extras(L, repo, members, HYPER):
    """witness messages from (accepted set of validate()) minus (protocol ranges), one per box of the difference"""
    import json as _json
    import importlib
    from report import VERIF
    from absdom import boxes_minus, INF
    from accept import Extractor, OTHER
    from consteval import Arr
    try:
        c13 = importlib.import_module("rules.c13")
        with open(os.path.join(VERIF, "spec", "ranges.json")) as f:
            spec = _json.load(f)
        enum_ci = repo.need_class("data_msg", "Modulation")
        out = []
        for clsname in ("TxMsg", "RxMsg"):
            ci = repo.need_class("data_msg", clsname)
            ex = Extractor(repo, ci, enum_ci, c13.field_table(repo, ci))
            acc = ex.run("validate")
            top = ex.tops()
            S = [b for _, b in c13.spec_boxes(spec, clsname, ex)]
            extra = boxes_minus(acc, S, top)
            # a valid base message to complete the fields a box leaves open
            base = {"fn": 1000, "tn": 3, "pwr": 10, "rssi": -60, "toa256": 0, "ci": 0, "tsc": 0, "tsc_set": 0, "nope_ind": False,
                    "mod_type": members.get("ModGMSK")}
            seen = set()
            for b in extra[:12]:
                flds, why = {}, []
                ok = True
                blen = None
                for k, d in sorted(b.items()):
                    t = top.get(k)
                    constrained = t is None or d != t
                    if k == "len(burst)":
                        iv = d.ints.iv
                        if iv and constrained:
                            lo, hi = iv[0]
                            blen = int(lo) if lo != -INF else (int(hi) if hi != INF else 148)
                            blen = min(max(blen, 0), 2000)
                        continue
                    if k == "burst":
                        flds[k] = "present" if not d.ints.empty() else None
                        continue
                    if k == "mod_type":
                        names = sorted(x for x in d.syms if x != OTHER and x in members)
                        flds[k] = members[names[0]] if names else None
                        if not names and not d.none:
                            ok = False
                        continue
                    if not d.ints.empty():
                        lo, hi = d.ints.iv[0]
                        if not constrained and k in base:
                            v = base[k]
                        else:
                            v = int(lo) if lo != -INF else (int(hi) if hi != INF else 0)
                        flds[k] = bool(v) if k == "nope_ind" else v
                    elif d.none:
                        flds[k] = None
                    else:
                        ok = False
                    if constrained:
                        why.append("%s=%s" % (k, flds.get(k)))
                if not ok:
                    continue
                if flds.get("nope_ind") is True:
                    for k in ("mod_type", "tsc_set", "tsc"):        # not part of a NOPE indication's encoding
                        flds.pop(k, None)
                    why = [w for w in why if not w.startswith(("mod_type=", "tsc_set=", "tsc="))]
                if flds.get("burst") == "present":
                    if blen is None:
                        m = flds.get("mod_type")
                        blen = m.attrs.get("bl", 148) if m is not None and flds.get("ver") == 1 else 148
                    flds["burst"] = bytearray([1, 0] * (blen // 2) + [1] * (blen % 2)) if clsname == "TxMsg" else \
                        Arr("b", [((i * 3) % 255) - 127 for i in range(blen)])
                    why.append("len(burst)=%d" % blen)
                key = (clsname, tuple(why))
                if key in seen:
                    continue
                seen.add(key)
                out.append((clsname, ", ".join(why)[:160], flds))
        return out[:16]
    except Exception as ex:          # the extraction is C13's rule; when it is not applicable there are no extra witnesses
        L.extra.setdefault("notes", []).append("[C01.R8] accepted-set extras not derived: %s" % str(ex)[:120])
        return []


def run(L, tier):
    repo = Repo(L.repo)
    L.unit(rel("gsm_shared"))
    from report import STAGE_FAILED
    r8 = L.stage(r8_roundtrip, L, repo)
    n_dec = len(L.deficits)
    L.stage(r1_r2, L, repo)
    if r8 is not STAGE_FAILED and len(L.deficits) > n_dec:
        # the layout classifier (encoder segments vs decoder expressions, for all field values) left its vocabulary, but both
        # functions folded end to end on the boundary witnesses of every field: the symbolic rule is an open proof attempt
        why = L.deficits[n_dec:]
        del L.deficits[n_dec:]
        L.extra.setdefault("structural_proofs", {})["C01.R1/R2 encoder segment list and decoder field expressions are inverse"] = {
            "obligations": 0, "closed": False, "open": [w[:160] for w in why][:5]}
    L.stage(r3_tables, L, repo)
    members = L.stage(r4_mts, L, repo)
    L.stage(r5_burst_len, L, repo, members)
    L.stage(r6_ownership, L, repo)
    L.stage(r6b_decoded_ownership, L, repo)
    from pyutil import memo_sound
    L.stage(memo_sound, L, repo, "C01.R7", ("data_msg", "gsm_shared"))
    from pyutil import oneshot_constants
    L.stage(oneshot_constants, L, repo, "C01.R7", ("data_msg", "gsm_shared"))
