# C18 -- burst-loss simulation drops exactly the requested bursts.

import ast
import json
import os

from report import AnalysisError, VERIF
from pyfront import (Repo, CFG, canon, guard_literals, attr_accesses, literals,
                     qualname, calls_in, single_defs, TK, _Subst)
from pyutil import params, deep_subst, find_calls, lit_fmt, rel, name_of, owners
from dtable import Walker
import exprnf as X
from consteval import Ev, fold, Unknown, Raised

EXPLANATION = (
    "Complete decision tables (all truth assignments of the branch atoms, with "
    "atoms updated by the assignments on the path) of sim_burst_drop, the two "
    "FAKE_DROP branches and FakeTRX.handle_data_msg, who-may-write scan of "
    "the drop counters, guard literals of the sender-side mute, and folding of "
    "the NOPE noise constants against the validation ranges.")
ASSUMPTIONS = [
    "'exactly the next n matching bursts' follows by induction from: one decrement per suppressed burst, none otherwise, never below zero (argued, not checked)",
]
F = rel("fake_trx")


def branch_subst(stmts):
    """names assigned exactly once inside `stmts` -> value"""
    cnt, val = {}, {}
    for st in stmts:
        for n in ast.walk(st):
            if isinstance(n, ast.Assign) and len(n.targets) == 1 and isinstance(n.targets[0], ast.Name):
                cnt[n.targets[0].id] = cnt.get(n.targets[0].id, 0) + 1
                val[n.targets[0].id] = n.value
    return {k: v for k, v in val.items() if cnt[k] == 1}


def r1_counter(L, repo, force_shape=False):
    names = ("burst_drop_amount", "burst_drop_period")
    allowed = {"FakeTRX.__init__", "FakeTRX.ctrl_cmd_handler", "FakeTRX.sim_burst_drop"}
    n = 0
    for m in repo.tk_modules():
        L.unit(m.rel)
        for nm in names:
            for node, kind in attr_accesses(m.tree, nm):
                if kind == "load":
                    continue
                n += 1
                q = qualname(node)
                own = owners(m, node)
                ok = own <= allowed and not ("FakeTRX.sim_burst_drop" in own and nm == "burst_drop_period")
                if ok and q not in allowed:
                    q = sorted(own)[0]
                L.ob("C18.R1", m.rel, q, "writer of %s (%s) `%s`" % (nm, kind, canon(node._parent)[:50]),
                     "only __init__, the FAKE_DROP branches and the decrement in sim_burst_drop", q, ok, node.lineno)
    L.floor("C18.R1", "writers of the drop state", n, 4)
    ci, fd = repo.need_method("fake_trx", "FakeTRX", "sim_burst_drop")
    fn = "FakeTRX.sim_burst_drop"
    L.fn(F, fn)
    M = params(fd)[1]

    def ev(st):
        if isinstance(st, ast.Return):
            return ("ret", canon(st.value) if st.value else None)
        if isinstance(st, ast.AugAssign):
            return ("aug", canon(st))
        if isinstance(st, ast.Assign):
            return ("store", canon(st))
        if isinstance(st, ast.Expr) and isinstance(st.value, ast.Call) and canon(st.value.func).startswith("log."):
            return None
        if isinstance(st, ast.Expr) and isinstance(st.value, ast.Constant):
            return None
        return ("other", canon(st)[:50])
    # decided by folding sim_burst_drop over boundary witnesses of its state (amount >= 0, period >= 1 - what the
    # FAKE_DROP handler can store, see R2) and frame numbers: drop iff amount > 0 and fn % period == 0, and the
    # amount goes down by exactly one per drop
    folded, bad, nw = True, [], 0
    for amt in (() if force_shape else (0, 1, 2, 7)):
        for per in (1, 2, 51):
            for fnv in (0, 1, 2, 50, 51, 102, 2715647):
                e_ = Ev(repo, repo.mod("fake_trx"), env={"self.burst_drop_amount": amt, "self.burst_drop_period": per, "%s.fn" % M: fnv},
                        self_cls=repo.need_class("fake_trx", "FakeTRX"))
                try:
                    r_ = e_.run_block(fd.body)
                except (Unknown, Raised):
                    folded = False
                    break
                nw += 1
                got_ = (bool(r_[1]) if isinstance(r_, tuple) else False, e_.env.get("self.burst_drop_amount"), e_.env.get("self.burst_drop_period"))
                drop_ = amt > 0 and fnv % per == 0
                want_ = (drop_, amt - 1 if drop_ else amt, per)
                if got_ != want_:
                    bad.append({"amount": amt, "period": per, "fn": fnv, "(drop, amount', period')": got_, "expected": want_})
            if not folded:
                break
        if not folded:
            break
    if force_shape:
        folded = False
    if folded:
        L.ob("C18.R1", F, fn, "sim_burst_drop drops iff amount > 0 and fn mod period == 0 and then decrements the amount by one (folded for "
             "%d witnesses)" % nw, [], bad[:3], not bad, fd.lineno)
        L.floor("C18.R1", "sim_burst_drop witnesses folded", nw, 80)
    W = Walker(ev)
    atoms, rows = W.table(fd.body) if not folded else ([], {})
    A0 = "0 == self.burst_drop_amount"
    A1 = "0 == %s.fn %% self.burst_drop_period" % M
    if not folded:
        L.require("C18.R1", F, fn, "atoms of the drop decision", sorted([A0, A1]), sorted(atoms))
    if sorted(atoms) != sorted([A0, A1]):
        rows = {}
    for vals, evs in sorted(rows.items()):
        a = dict(zip(atoms, vals))
        if not a[A0] and a[A1]:
            want = (("aug", "self.burst_drop_amount -= 1"), ("ret", "True"))
        else:
            want = (("ret", "False"),)
        L.require("C18.R1", F, fn, "sim_burst_drop with amount_is_zero=%d fn_matches_period=%d" % (a[A0], a[A1]),
                  want, evs)
    # initial state: amount 0, period 1
    ci, init = repo.need_method("fake_trx", "FakeTRX", "__init__")
    st = {canon(n.targets[0]): canon(n.value) for n in ast.walk(init) if isinstance(n, ast.Assign)}
    L.require("C18.R1", F, "FakeTRX.__init__", "initial drop state (amount, period)", ("0", "1"),
              (st.get("self.burst_drop_amount"), st.get("self.burst_drop_period")))


def r2_fake_drop(L, repo):
    """R2: FAKE_DROP <AMOUNT> [<PERIOD>]: a valid command answers 0 and sets (amount, period) (period 1 when omitted);
    a negative amount or a non-positive period answers -1 and leaves the drop state unchanged. Decided by folding the
    WHOLE command handler (helpers included, verify_cmd evaluated from ctrl_if's source) for boundary witnesses of
    both forms: whatever way the branches are written, the status and the resulting state are compared."""
    ci, fd = repo.need_method("fake_trx", "FakeTRX", "ctrl_cmd_handler")
    fn = "FakeTRX.ctrl_cmd_handler"
    L.fn(F, fn)
    REQ = params(fd)[1]
    ci0 = repo.need_class("fake_trx", "FakeTRX")
    mod = repo.mod("fake_trx")
    cci, vfd = repo.need_method("ctrl_if", "CTRLInterface", "verify_cmd")
    def verify(args):
        try:
            ev_ = Ev(repo, cci.mod, self_cls=cci)
            return ev_.call_func(vfd, cci.mod, ev_._bindargs(vfd, ["<self>"] + list(args), {}))
        except (Unknown, Raised) as ex:
            raise AnalysisError("verify_cmd does not fold: %s" % ex)
    nums = (-5, -1, 0, 1, 7)
    n = 0
    # the state left by earlier commands: distinctive integers (a handler that adds to it, or keeps part of it, shows)
    OLD_AMT, OLD_PER = 1000003, 1000033
    for argc in (1, 2):
        pers = (-3, -1, 0, 1, 2, 51) if argc == 2 else (None,)
        for num in nums:
            for per in pers:
                req = ["FAKE_DROP", str(num)] + ([str(per)] if per is not None else [])
                env = {REQ: list(req), "self.burst_drop_amount": OLD_AMT, "self.burst_drop_period": OLD_PER}
                e = Ev(repo, mod, env=env, self_cls=ci0)
                e.hooks = {"self.ctrl_if.verify_cmd": verify}
                try:
                    r = e.run_block(fd.body)
                except (Unknown, Raised) as ex:
                    raise AnalysisError("ctrl_cmd_handler does not fold for %s: %s" % (req, ex))
                ret = r[1] if isinstance(r, tuple) else None
                state = (e.env.get("self.burst_drop_amount"), e.env.get("self.burst_drop_period"))
                valid = num >= 0 and (per is None or per > 0)
                if valid:
                    want = (0, (num, 1 if per is None else per))
                else:
                    want = (-1, (OLD_AMT, OLD_PER))
                n += 1
                L.require("C18.R2", F, fn, "FAKE_DROP %s: status and drop state afterwards (invalid arguments: -1 and state unchanged)" % " ".join(req[1:]),
                          want, (ret, state), line=fd.lineno)
    L.floor("C18.R2", "FAKE_DROP witness commands folded through the handler", n, 35)


def r3_suppression(L, repo):
    ci, fd = repo.need_method("fake_trx", "FakeTRX", "handle_data_msg")
    fn = "FakeTRX.handle_data_msg"
    L.fn(F, fn)
    ps = params(fd)
    if len(ps) != 4:
        raise AnalysisError("FakeTRX.handle_data_msg signature changed")
    _, SRC, SMSG, MSG = ps
    NOPE = "%s.nope_ind" % MSG
    DROP = "self.sim_burst_drop(%s)" % MSG
    A = {"mute": "self.rf_muted", "nope": NOPE, "drop": DROP, "v0": "%s.ver < 1" % MSG,
         "fake": "self.fake_rssi_enabled", "ta0": "0 == %s.ta" % SRC}
    state = {"drop_calls": 0}

    def on_atom(t):
        if t == DROP:
            state["drop_calls"] += 1

    from dtable import eval_bool

    def update(st, assign):
        if isinstance(st, ast.Assign) and len(st.targets) == 1 and canon(st.targets[0]) == NOPE:
            try:
                assign[NOPE] = bool(eval_bool(st.value, assign, None, W.norm, on_atom))
            except AnalysisError:
                raise AnalysisError("handle_data_msg: assignment to nope_ind unclassifiable: %s" % canon(st.value))

    def ev(st):
        if isinstance(st, ast.Return):
            return ("ret",)
        if isinstance(st, ast.Delete):
            return None
        if isinstance(st, ast.Assign) and len(st.targets) == 1:
            t = canon(st.targets[0])
            v = canon(st.value)
            if t == NOPE:
                return None
            if t.startswith(MSG + "."):
                return ("set", t[len(MSG) + 1:], v)
            return ("other", canon(st)[:50])
        if isinstance(st, ast.AugAssign):
            t = canon(st.target)
            if t.startswith(MSG + "."):
                return ("aug", t[len(MSG) + 1:], type(st.op).__name__, canon(st.value))
            return ("other", canon(st)[:50])
        if isinstance(st, ast.Expr) and isinstance(st.value, ast.Call):
            t = canon(st.value)
            if t.startswith("log."):
                return None
            if t == DROP:
                state["drop_calls"] += 1
                return None
            return ("call", t)
        if isinstance(st, ast.Expr) and isinstance(st.value, ast.Constant):
            return None
        return ("other", canon(st)[:50])

    W = Walker(ev, update=update, on_atom=on_atom)
    atoms = W.atoms(fd.body)
    for need in A.values():
        if need not in atoms:
            atoms.append(need)
    unknown = [a for a in atoms if a not in A.values()]
    if len(atoms) > 9:
        raise AnalysisError("handle_data_msg: too many branch atoms: %s" % atoms)
    import itertools
    nrows = 0
    for vals in itertools.product([False, True], repeat=len(atoms)):
        a = dict(zip(atoms, vals))
        state["drop_calls"] = 0
        evs = []
        W.walk(fd.body, dict(a), evs)
        mute, nope0, drop, v0 = a[A["mute"]], a[A["nope"]], a[A["drop"]], a[A["v0"]]
        if mute:
            nope, calls = True, 0
        elif not nope0:
            nope, calls = drop, 1
        else:
            nope, calls = True, 0
        # what reaches the recipient: final value of every field (assignments and in-place corrections composed,
        # compared as linear normal forms) and the calls made, whatever way the statements are split or merged
        DELIV = ("self.data_if.send_msg(%s)" % MSG, "Transceiver.handle_data_msg(self, %s)" % MSG,
                 "super().handle_data_msg(%s)" % MSG)
        fields, calls_, others, late = {}, [], [], False
        delivered = False
        for e_ in evs:
            if e_[0] == "set":
                if delivered:
                    late = True
                fields[e_[1]] = e_[2]
            elif e_[0] == "aug":
                if delivered:
                    late = True
                opsym = {"Sub": "-", "Add": "+", "Mult": "*"}.get(e_[2])
                if opsym is None or e_[1] not in fields:
                    others.append(e_)
                else:
                    fields[e_[1]] = "(%s) %s (%s)" % (fields[e_[1]], opsym, e_[3])
            elif e_[0] == "call":
                calls_.append(e_[1])
                if e_[1] in DELIV:
                    delivered = True
            elif e_[0] == "ret":
                pass
            else:
                others.append(e_)

        def lin_of(txt):
            try:
                return X.linear(X.PyLower().lower(ast.parse(txt, mode="eval").body))
            except (AnalysisError, SyntaxError):
                return ("text", txt)
        if others:
            raise AnalysisError("handle_data_msg: statement the suppression table cannot classify: %s" % (others[0],))
        got = {"fields": dict(fields), "calls": list(calls_), "drop_simulation_calls": state["drop_calls"], "set after delivery": late}
        if nope:
            if v0:
                want = {"calls": [], "note": "nothing is sent"}
                ok = not [c_ for c_ in calls_ if c_ in DELIV]
            else:
                want = {"fields": {"burst": "None", "toa256": "self.TOA256_NOISE_DEFAULT", "rssi": "self.RSSI_NOISE_DEFAULT",
                                   "ci": "self.CI_NOISE_DEFAULT"}, "calls": [DELIV[0]]}
                ok = all(fields.get(k_) == v_ for k_, v_ in want["fields"].items()) and \
                    [c_ for c_ in calls_ if c_ in DELIV] == [DELIV[0]] and not late
        else:
            toa = lin_of(fields.get("toa256", "None"))
            want_toa = ({"self.toa256": 1, "%s.ta" % SRC: -256}, 0)
            toa_ok = toa == want_toa or (a[A["ta0"]] and toa == ({"self.toa256": 1}, 0))
            rssi_ok = (fields.get("rssi") == "self.rssi") if a[A["fake"]] else (fields.get("rssi") not in (None, "None", "self.rssi"))
            v1call = "self._handle_data_msg_v1(%s, %s)" % (SMSG, MSG)
            deliv = [c_ for c_ in calls_ if c_ in DELIV]
            calls_ok = len(deliv) == 1 and deliv[0] in DELIV[1:] and calls_ and calls_[-1] == deliv[0] and \
                ((v1call in calls_) == (not v0)) and all(c_ in DELIV or c_ == v1call for c_ in calls_)
            want = {"fields": {"toa256": "self.toa256 - 256 * %s.ta" % SRC, "rssi": "self.rssi" if a[A["fake"]] else "<the formula>"},
                    "calls": ([v1call] if not v0 else []) + ["Transceiver.handle_data_msg(self, %s)" % MSG]}
            ok = toa_ok and rssi_ok and calls_ok and not late
        ok = ok and state["drop_calls"] == calls
        nrows += 1
        extra = "".join(" %s=%d" % (u[:30], a[u]) for u in unknown)
        want["drop_simulation_calls"] = calls
        L.ob("C18.R3", F, fn,
             "row rf_muted=%d already_nope=%d drop=%d ver0=%d fake_rssi=%d ta_zero=%d%s" % (
                 mute, nope0, drop, v0, a[A["fake"]], a[A["ta0"]], extra),
             want, got, ok, fd.lineno)
    L.floor("C18.R3", "rows of the suppression decision table", nrows, 64)
    # sender side: muted sender strips the burst, trans() turns that into NOPE
    ci, fm = repo.need_method("burst_fwd", "BurstForwarder", "forward_msg")
    FB = rel("burst_fwd")
    L.unit(FB)
    ps = params(fm)
    S, M = ps[1], ps[2]
    cfg = CFG(fm)
    st = [n for n in ast.walk(fm) if isinstance(n, ast.Assign) and canon(n.targets[0]) == "%s.burst" % M]
    L.require("C18.R3", FB, "BurstForwarder.forward_msg", "stores to the forwarded burst", 1, len(st))
    for s in st:
        lits = guard_literals(cfg, cfg.node_of(s))
        L.require("C18.R3", FB, "BurstForwarder.forward_msg", "burst is stripped iff the sender is RF-muted",
                  (lit_fmt({("%s.rf_muted" % S, True)}), "None"), (lit_fmt(lits), canon(s.value)), line=s.lineno)
        # must precede the delivery loop
        loops = [n for n in fm.body if isinstance(n, ast.For)]
        L.ob("C18.R3", FB, "BurstForwarder.forward_msg", "mute is applied before any copy is made", "before the loop",
             s.lineno, bool(loops) and s.lineno < loops[0].lineno, s.lineno)
    ci, tr = repo.need_method("data_msg", "TxMsg", "trans")
    FD = rel("data_msg")
    L.unit(FD)

    def ev2(st):
        if isinstance(st, ast.Assign) and len(st.targets) == 1:
            t = canon(st.targets[0])
            if t.endswith(".nope_ind") or t.endswith(".burst"):
                return (t.split(".")[-1], canon(st.value))
            return None
        if isinstance(st, ast.Return):
            return ("ret",)
        return None
    W2 = Walker(ev2)
    atoms, rows = W2.table(tr.body)
    if atoms == ["None is self.burst"]:
        L.require("C18.R3", FD, "TxMsg.trans", "a stripped burst becomes a NOPE indication, a present one is converted",
                  {(True,): (("nope_ind", "True"), ("ret",)), (False,): (("burst", "self.ubit2sbit(self.burst)"), ("ret",))},
                  rows)
    else:
        L.require("C18.R3", FD, "TxMsg.trans", "atoms of trans()", ["None is self.burst"], atoms)
    # RFMUTE: decided by folding the whole command handler (helpers, dispatch tables) for the boundary arguments, from both
    # mute states; the shape of the store in parse_cmd is the proof attempt for every integer
    FT = rel("ctrl_if_trx")
    L.unit(FT)
    folded = _rfmute_fold(L, repo)
    if folded:
        L.structural("C18.R3 shape of the RFMUTE store in parse_cmd", _rfmute_shape, L, repo)
    else:
        _rfmute_shape(L, repo)
    # other writers of rf_muted: the constructor and code that runs on behalf of the command handler
    from pyutil import owners
    for m in repo.tk_modules():
        for node, kind in attr_accesses(m.tree, "rf_muted"):
            if kind != "load":
                q = qualname(node)
                own = owners(m, node) if folded else {q}
                L.ob("C18.R3", m.rel, q, "writer of rf_muted", "FakeTRX.__init__ or the RFMUTE branch", sorted(own) or q,
                     q in ("FakeTRX.__init__", "CTRLInterfaceTRX.parse_cmd") or (folded and m.name == "ctrl_if_trx" and own <= {"CTRLInterfaceTRX.parse_cmd"}),
                     node.lineno)


def _rfmute_fold(L, repo):
    from cmdfold import fold_parse_cmd
    FT = rel("ctrl_if_trx")
    rows = []
    try:
        for before in (False, True):
            for arg, want in (("-1", False), ("0", False), ("1", True), ("2", True), ("255", True)):
                f = fold_parse_cmd(repo, ["RFMUTE", arg], {"rf_muted": before})
                got = f.stores().get("rf_muted", before)
                rows.append((before, arg, (0, want), (f.ret, bool(got) if isinstance(got, (bool, int)) else got)))
            f = fold_parse_cmd(repo, ["SETPOWER", "3"], {"rf_muted": before})
            rows.append((before, "<SETPOWER 3>", (0, before), (f.ret, f.stores().get("rf_muted", before))))
        # 'RF mute ... suppresses all bursts WHILE ACTIVE': the state follows the LAST command, however often the same
        # command was repeated before (whatever representation the handler keeps, it is carried from fold to fold)
        for seq_, want in ((("1", "1", "0"), False), (("0", "0", "1"), True), (("1", "0", "0", "1", "1", "1", "0"), False)):
            cur = False
            for a_ in seq_:
                f = fold_parse_cmd(repo, ["RFMUTE", a_], {"rf_muted": cur})
                cur = f.stores().get("rf_muted", cur)
            rows.append((False, "<sequence %s>" % " ".join(seq_), (0, want), (f.ret, bool(cur) if isinstance(cur, (bool, int)) else cur)))
    except AnalysisError:
        return False
    for before, arg, want, got in rows:
        L.require("C18.R3", FT, "CTRLInterfaceTRX.parse_cmd", "CMD RFMUTE %s with the transceiver %s: (status, muted afterwards)" % (
            arg, "muted" if before else "not muted") if not arg.startswith("<") else (
            "the commands RFMUTE %s one after the other, starting not muted: (last status, muted afterwards)" % arg[10:-1] if arg.startswith("<sequence") else
            "another command (SETPOWER 3) with the transceiver %s leaves the mute state alone: (status, muted afterwards)" % ("muted" if before else "not muted")),
            want, got)
    return True


def _rfmute_shape(L, repo):
    ci, pc = repo.need_method("ctrl_if_trx", "CTRLInterfaceTRX", "parse_cmd")
    FT = rel("ctrl_if_trx")
    cfgp = CFG(pc)
    REQ = params(pc)[1]
    st = [n for n in ast.walk(pc) if isinstance(n, ast.Assign) and canon(n.targets[0]).endswith(".rf_muted")]
    L.require("C18.R3", FT, "CTRLInterfaceTRX.parse_cmd", "stores to rf_muted", 1, len(st))
    for s in st:
        lits = guard_literals(cfgp, cfgp.node_of(s))
        L.ob("C18.R3", FT, "CTRLInterfaceTRX.parse_cmd", "RFMUTE <n> mutes iff n > 0",
             "self.trx.rf_muted = int(%s[1]) > 0 under verify_cmd(RFMUTE, 1)" % REQ, canon(s),
             canon(s) == "self.trx.rf_muted = int(%s[1]) > 0" % REQ and
             ("self.verify_cmd(%s, 'RFMUTE', 1)" % REQ, True) in lits, s.lineno)


def r4_nope_encodable(L, repo):
    with open(os.path.join(VERIF, "spec", "ranges.json")) as f:
        spec = json.load(f)
    sc = [s for s in spec["RxMsg"] if s["name"] == "Rx v1 NOPE"][0]
    ci = repo.need_class("fake_trx", "FakeTRX")
    for const, field in (("TOA256_NOISE_DEFAULT", "toa256"), ("RSSI_NOISE_DEFAULT", "rssi"), ("CI_NOISE_DEFAULT", "ci")):
        try:
            v = fold(repo, ci.mod, ast.parse("self." + const, mode="eval").body, self_cls=ci)
        except Unknown:
            raise AnalysisError("%s does not fold" % const)
        lo, hi = sc[field]
        L.ob("C18.R4", F, "FakeTRX", "NOPE indication's %s (%s) is inside the range validate() accepts" % (field, const),
             "%d..%d" % (lo, hi), v, isinstance(v, int) and lo <= v <= hi)


def r5_no_discard(L, repo):
    """R5: suppression (RFMUTE / FAKE_DROP) acts on bursts when they are forwarded: a muted transceiver's queued bursts
    still yield one NOPE indication each at version-1 peers and forwarding resumes with the queue intact after
    un-muting. Necessary condition: nothing but the power-off handler discards the transmit queue."""
    from rules.c03 import who_may_clear
    who_may_clear(L, repo, "C18.R5")


def run(L, tier):
    repo = Repo(L.repo)
    L.unit(F)
    L.stage(r1_counter, L, repo)
    L.structural("C18.R1 decision table of sim_burst_drop over its two branch atoms", r1_counter, L, repo, True)
    L.stage(r2_fake_drop, L, repo)
    L.stage(r3_suppression, L, repo)
    L.stage(r4_nope_encodable, L, repo)
    L.stage(r5_no_discard, L, repo)
