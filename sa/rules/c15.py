# C15 -- capture files return exactly what was stored, even after truncation.

import ast
import struct

from report import AnalysisError
from pyfront import (Repo, CFG, canon, guard_literals, literals, qualname,
                     calls_in)
from pyutil import params, deep_subst, find_calls, lit_fmt, rel, name_of, branch_subst, returns
from dtable import Walker
from symfwd import Fwd, flat_add
from consteval import Ev, fold, Unknown, Raised

EXPLANATION = (
    "Writer/reader agreement of the record framing by forward substitution "
    "(tag octet by class + '>H' length + message on both sides, constants "
    "folded), guard literals proving that a record is returned only when header "
    "and body were read completely, and decision tables / statement-order "
    "rules of the sequential skip, the count limit and the append path.")
ASSUMPTIONS = [
    "field equality of the returned messages is C01's round trip",
    "file.read(n) returns at most n octets; seek(n, 1) is relative",
]
F = rel("data_dump")


def r1_fold(L, repo):
    """R1 decided by folding writer and reader: for messages of both classes and payload witnesses of 0, 1, 9, 156,
    458 and 751 octets (the longest TRXD message), dump_msg() yields HDR_LENGTH header octets + the payload exactly as
    gen_msg() produced it; parse_hdr() of those header octets yields an object of the SAME class and the payload's
    length; an object of another class is refused by the writer; a header with any other tag is reported as False by
    the reader. Returns HDR_LENGTH, or None when the code leaves the evaluator's vocabulary."""
    from consteval import Instance
    ci = repo.need_class("data_dump", "DATADump")
    c, dm = repo.need_method("data_dump", "DATADump", "dump_msg")
    c, ph = repo.need_method("data_dump", "DATADump", "parse_hdr")
    M = params(dm)[1]
    H = params(ph)[1]
    try:
        hl = Ev(repo, ci.mod, self_cls=ci).ev(ast.parse("self.HDR_LENGTH", mode="eval").body)
    except (Unknown, Raised):
        return None
    if not isinstance(hl, int):
        return None
    hooks_r = {"TxMsg": lambda a: "TxMsg", "RxMsg": lambda a: "RxMsg",
               "data_msg.TxMsg": lambda a: "TxMsg", "data_msg.RxMsg": lambda a: "RxMsg"}
    n = 0
    seen_tags = {}
    for cls in ("TxMsg", "RxMsg"):
        mci = repo.need_class("data_msg", cls)
        for ln in (0, 1, 9, 156, 458, 751):
            raw = bytes((7 * i + ln) & 0xff for i in range(ln))
            e = Ev(repo, ci.mod, env={M: Instance(mci)}, self_cls=ci)
            def gen(a, kw, raw=raw):
                # the oracle for gen_msg(): the message's wire form; legacy padding adds two octets (which a capture
                # must not contain: "exactly as gen_msg() produced it" refers to the plain call)
                legacy = bool(a[0]) if a else bool(kw.get("legacy", False))
                return bytearray(raw) + (bytearray(2) if legacy else bytearray())
            gen.wants_kw = True
            e.hooks = {"%s.gen_msg" % M: gen}
            try:
                r = e.run_block(dm.body)
            except Unknown:
                return None
            except Raised as ex:
                r = ("raises", ex.cls)
            rec = r[1] if isinstance(r, tuple) and r[0] == "ret" else r
            ok = isinstance(rec, (bytes, bytearray)) and bytes(rec[hl:]) == raw
            L.ob("C15.R1", F, "DATADump.dump_msg", "%s of %d octets: record = %d header octets + the message exactly as gen_msg() produced it" % (cls, ln, hl),
                 "header + payload", "%d octets, payload %s" % (len(rec), "intact" if ok else "differs") if isinstance(rec, (bytes, bytearray)) else repr(rec),
                 ok, dm.lineno)
            n += 1
            if not ok:
                continue
            hdr = bytes(rec[:hl])
            seen_tags.setdefault(cls, set()).add(hdr[:1])
            e2 = Ev(repo, ci.mod, env={H: hdr}, self_cls=ci)
            e2.hooks = dict(hooks_r)
            try:
                r2 = e2.run_block(ph.body)
            except Unknown:
                return None
            except Raised as ex:
                r2 = ("raises", ex.cls)
            got = r2[1] if isinstance(r2, tuple) and r2[0] == "ret" else r2
            if isinstance(got, tuple) and len(got) == 2 and isinstance(got[0], Instance):
                got = (got[0].ci.name, got[1])
            L.ob("C15.R1", F, "DATADump.parse_hdr", "header written for a %s of %d octets is read back as (that class, that length)" % (cls, ln),
                 (cls, ln), got, isinstance(got, tuple) and len(got) == 2 and got[0] == cls and got[1] == ln, ph.lineno)
    # another class is refused by the writer
    for other in ("Msg",):
        oci = repo.need_class("data_msg", other)
        e = Ev(repo, ci.mod, env={M: Instance(oci)}, self_cls=ci)
        e.hooks = {"%s.gen_msg" % M: lambda a: bytearray(b"x")}
        try:
            r = e.run_block(dm.body)
            got = "returns"
        except Unknown:
            return None
        except Raised as ex:
            got = "raises %s" % ex.cls
        L.ob("C15.R1", F, "DATADump.dump_msg", "an object that is neither a Tx nor an Rx message is refused", "raises", got,
             got.startswith("raises"), dm.lineno)
    # unknown tags
    used = set().union(*seen_tags.values()) if seen_tags else set()
    for tag in (b"\x00", b"\x03", b"\x7f", b"\xff"):
        if tag in used:
            continue
        e2 = Ev(repo, ci.mod, env={H: tag + b"\x00\x05"}, self_cls=ci)
        e2.hooks = dict(hooks_r)
        try:
            r2 = e2.run_block(ph.body)
        except Unknown:
            return None
        except Raised as ex:
            r2 = ("raises", ex.cls)
        got = r2[1] if isinstance(r2, tuple) and r2[0] == "ret" else r2
        L.ob("C15.R1", F, "DATADump.parse_hdr", "a header with the unknown tag 0x%02x is reported as False (no exception)" % tag[0],
             False, got, got is False, ph.lineno)
    L.ob("C15.R1", F, "DATADump", "the two message classes are written with distinct tags", "distinct",
         sorted(repr(t) for ts in seen_tags.values() for t in ts),
         len(seen_tags) == 2 and all(len(ts) == 1 for ts in seen_tags.values()) and len(used) == 2)
    L.floor("C15.R1", "writer/reader witness pairs folded", n, 12)
    return hl


def r1_framing(L, repo):
    L.unit(F)
    L.fn(F, "DATADump.dump_msg")
    L.fn(F, "DATADump.parse_hdr")
    hl_f = r1_fold(L, repo)
    L.extra["c15_framing_folded"] = hl_f is not None
    if hl_f is not None:
        _largest_fits(L, repo)
        L.structural("C15.R1 writer/reader agreement by forward substitution of dump_msg / parse_hdr", r1_framing_shape, L, repo)
        return hl_f
    return r1_framing_shape(L, repo)


def _largest_fits(L, repo):
    dmod = repo.mod("data_msg")
    mci = repo.need_class("data_msg", "Modulation")
    mx_bl = max(m.attrs.get("bl", 0) for m in Ev(repo, dmod).enum_members(mci))
    rci = repo.need_class("data_msg", "RxMsg")
    known = fold(repo, dmod, ast.parse("Msg.KNOWN_VERSIONS", mode="eval").body)
    mx_hdr = 0
    for v in known:
        mx_hdr = max(mx_hdr, Ev(repo, dmod, env={"self.ver": v}, self_cls=rci).ev(ast.parse("self.HDR_LEN", mode="eval").body))
    L.ob("C15.R1", F, "DATADump", "largest encodable message (%d header + %d burst + 2 padding) fits the 16-bit length" % (mx_hdr, mx_bl),
         "< 65536", mx_hdr + mx_bl + 2, mx_hdr + mx_bl + 2 < 65536)


def r1_framing_shape(L, repo):
    L.unit(F)
    ci = repo.need_class("data_dump", "DATADump")
    mod = ci.mod
    ev = Ev(repo, mod, self_cls=ci)
    c, dm = repo.need_method("data_dump", "DATADump", "dump_msg")
    fn = "DATADump.dump_msg"
    L.fn(F, fn)
    M = params(dm)[1]
    fw = Fwd()
    fw.run(dm.body)
    L.require("C15.R1", F, fn, "dump_msg has one return", 1, len(fw.returns))
    if len(fw.returns) != 1:
        return
    ret = fw.returns[0][1]
    parts = flat_add(ret)
    # expected shape: bytearray(tag + pack(fmt, len(raw))) + raw
    raw_txt = "%s.gen_msg()" % M
    ok_shape = len(parts) == 2 and canon(parts[1]) == raw_txt and isinstance(parts[0], ast.Call) \
        and canon(parts[0].func) in ("bytearray", "bytes") and len(parts[0].args) == 1
    L.ob("C15.R1", F, fn, "record = header + the message exactly as gen_msg() produced it (no legacy padding)",
         "bytearray(tag + length) + %s" % raw_txt, canon(ret)[:160], ok_shape, dm.lineno)
    if not ok_shape:
        return
    hp = flat_add(parts[0].args[0])
    if len(hp) != 2:
        L.ob("C15.R1", F, fn, "header = tag + length", 2, len(hp), False)
        return
    tag_e, len_e = hp
    # length field
    ok_len = isinstance(len_e, ast.Call) and canon(len_e.func) == "struct.pack" and len(len_e.args) == 2 \
        and isinstance(len_e.args[0], ast.Constant) and canon(len_e.args[1]) == "len(%s)" % raw_txt
    wfmt = len_e.args[0].value if ok_len else None
    L.ob("C15.R1", F, fn, "length field is struct.pack(fmt, len(message))", "struct.pack('>H', len(%s))" % raw_txt,
         canon(len_e), ok_len)
    # tag by class
    wtags = {}
    cur = tag_e
    while isinstance(cur, ast.IfExp):
        t = canon(cur.test)
        wtags[t] = canon(cur.body)
        cur = cur.orelse
    last = canon(cur)
    # the final alternative is reached only for RxMsg (else raise): take it from the raise structure
    tests = sorted(wtags)
    want_tests = ["isinstance(%s, TxMsg)" % M]
    tagmap_w = {}
    for t, v in wtags.items():
        cls = t[len("isinstance(%s, " % M):-1]
        tagmap_w[cls] = v
    # remaining branch: find elif isinstance(msg, RxMsg)
    for n in ast.walk(dm):
        if isinstance(n, ast.If):
            for (tt, p) in literals(n.test, True):
                if p and tt.startswith("isinstance(%s, " % M):
                    cls = tt[len("isinstance(%s, " % M):-1]
                    for s in n.body:
                        if isinstance(s, ast.Assign):
                            tagmap_w[cls] = canon(s.value)
    L.require("C15.R1", F, fn, "writer's tag by message class", {"TxMsg": "self.TAG_TxMsg", "RxMsg": "self.TAG_RxMsg"}, tagmap_w)
    L.ob("C15.R1", F, fn, "an object of another class is refused", ">= 1 raise", len(fw.raises), len(fw.raises) >= 1)
    # reader
    c, ph = repo.need_method("data_dump", "DATADump", "parse_hdr")
    fn2 = "DATADump.parse_hdr"
    L.fn(F, fn2)
    H = params(ph)[1]
    fr = Fwd(split=True)
    fr.run(ph.body)
    tagmap_r = {}
    rfmt = None
    rslice = None
    tagslice = None
    for conds, r in fr.returns:
        if r is None:
            continue
        if isinstance(r, ast.Tuple) and len(r.elts) == 2:
            m_e, l_e = r.elts
            # conds: '<tag expr> == self.TAG_X'
            pos = [c for c, p in conds if p and " == " in c and "self.TAG_" in c]
            if len(pos) != 1:
                raise AnalysisError("parse_hdr: tag test unclassifiable: %s" % conds)
            test = ast.parse(pos[0], mode="eval").body
            if not (isinstance(test, ast.Compare) and isinstance(test.ops[0], ast.Eq)):
                raise AnalysisError("parse_hdr: tag test unclassifiable")
            a, b = canon(test.left), canon(test.comparators[0])
            tagconst, tagexpr = (b, test.left) if b.startswith("self.TAG_") else (a, test.comparators[0])
            tagmap_r[canon(m_e).rstrip("()")] = tagconst
            tagslice = canon(tagexpr)
            if isinstance(l_e, ast.Subscript) and isinstance(l_e.value, ast.Call) and canon(l_e.value.func) == "struct.unpack":
                rfmt = l_e.value.args[0].value if isinstance(l_e.value.args[0], ast.Constant) else None
                rslice = canon(l_e.value.args[1])
                L.require("C15.R1", F, fn2, "length is element 0 of the unpacked tuple", "0", canon(l_e.slice))
    L.require("C15.R1", F, fn2, "reader's class by tag", {"TxMsg": "self.TAG_TxMsg", "RxMsg": "self.TAG_RxMsg"}, tagmap_r)
    unk = [canon(r) for conds, r in fr.returns if r is not None and not isinstance(r, ast.Tuple)]
    L.require("C15.R1", F, fn2, "unknown tag is reported as False (no exception)", ["False"], unk)
    L.require("C15.R1", F, "DATADump", "length format agrees between writer and reader (16 bit big-endian unsigned)",
              (">H", ">H"), (wfmt, rfmt))
    try:
        t_tx, t_rx, hl = ev.ev(ast.parse("self.TAG_TxMsg", mode="eval").body), \
            ev.ev(ast.parse("self.TAG_RxMsg", mode="eval").body), ev.ev(ast.parse("self.HDR_LENGTH", mode="eval").body)
    except (Unknown, Raised):
        raise AnalysisError("DATADump constants do not fold")
    L.ob("C15.R1", F, "DATADump", "tags are distinct single octets", "2 distinct 1-octet tags", (t_tx, t_rx),
         isinstance(t_tx, bytes) and isinstance(t_rx, bytes) and len(t_tx) == len(t_rx) == 1 and t_tx != t_rx)
    tl = len(t_tx) if isinstance(t_tx, bytes) else None
    fsz = struct.calcsize(wfmt) if wfmt else None
    L.require("C15.R1", F, "DATADump", "HDR_LENGTH = tag octets + length field", (tl or 0) + (fsz or 0), hl)
    L.require("C15.R1", F, fn2, "reader takes the tag from the first octet(s) and the length right after it",
              ("%s[:%d]" % (H, tl), "%s[%d:%d]" % (H, tl, tl + fsz)), (tagslice, rslice))
    # largest encodable message fits the length field
    dmod = repo.mod("data_msg")
    mci = repo.need_class("data_msg", "Modulation")
    mx_bl = max(m.attrs.get("bl", 0) for m in Ev(repo, dmod).enum_members(mci))
    rci = repo.need_class("data_msg", "RxMsg")
    known = fold(repo, dmod, ast.parse("Msg.KNOWN_VERSIONS", mode="eval").body)
    mx_hdr = 0
    for v in known:
        mx_hdr = max(mx_hdr, Ev(repo, dmod, env={"self.ver": v}, self_cls=rci).ev(ast.parse("self.HDR_LEN", mode="eval").body))
    L.ob("C15.R1", F, "DATADump", "largest encodable message (%d header + %d burst + 2 padding) fits the 16-bit length" % (mx_hdr, mx_bl),
         "< 65536", mx_hdr + mx_bl + 2, mx_hdr + mx_bl + 2 < 65536)
    return hl


def origin(fd, name, depth=0):
    """textual provenance of a local: follows plain and tuple-unpacking assignments; `None` / `False` sentinels
    assigned on failure paths (the use sits behind a test that excludes them) are not origins of a used value"""
    outs = _origin(fd, name, depth)
    real = [o for o in outs if o not in ("None", "False")]
    if real and len(real) < len(outs):
        outs = real
    # a plain copy of another local stands for that local's origin
    res = []
    for o in outs:
        if o.isidentifier() and depth < 4 and o != name:
            sub = origin(fd, o, depth + 1)
            res += sub if sub else [o]
        else:
            import re as _re
            m_ = _re.fullmatch(r"([A-Za-z_]\w*)\[(\d+)\]", o)
            if m_ and depth < 4 and m_.group(1) != name:
                sub = origin(fd, m_.group(1), depth + 1)
                res += ["%s[%s]" % (x, m_.group(2)) for x in sub] if sub else [o]
            else:
                res.append(o)
    return res


def _origin(fd, name, depth=0):
    outs = []
    for n in ast.walk(fd):
        if isinstance(n, ast.Assign) and len(n.targets) == 1:
            t = n.targets[0]
            if isinstance(t, ast.Name) and t.id == name:
                outs.append(canon(n.value))
            elif isinstance(t, (ast.Tuple, ast.List)):
                for i, e in enumerate(t.elts):
                    if isinstance(e, ast.Name) and e.id == name:
                        src = canon(n.value)
                        if isinstance(n.value, ast.Name) and depth < 3:
                            o = origin(fd, n.value.id, depth + 1)
                            if len(o) == 1:
                                src = o[0]
                        outs.append("%s[%d]" % (src, i))
    return outs


def r2_short_read(L, repo):
    ci, fd = repo.need_method("data_dump", "DATADumpFile", "_parse_msg")
    fn = "DATADumpFile._parse_msg"
    L.fn(F, fn)
    cfg = CFG(fd)
    subst = None
    rets, implicit = returns(cfg)
    L.require("C15.R2", F, fn, "implicit returns", 0, len(implicit))
    n_msg = 0
    reads = [n for n in ast.walk(fd) if isinstance(n, ast.Assign) and isinstance(n.value, ast.Call)
             and canon(n.value.func) == "self.f.read"]
    L.require("C15.R2", F, fn, "number of file reads per record", 2, len(reads))
    rd = {canon(r.targets[0]): canon(r.value.args[0]) for r in reads}
    for node, val in rets:
        k = canon(val) if val is not None else "None"
        if k in ("None", "False"):
            continue
        n_msg += 1
        lits = guard_literals(cfg, node)
        need = set()
        for var, size in rd.items():
            a, b = sorted(["len(%s)" % var, size])
            need.add(("%s == %s" % (a, b), True))
        # sizes expressed with the local names (before substitution)
        lits_s = guard_literals(cfg, node, subst)
        L.ob("C15.R2", F, fn, "a record is returned only if header and body were both read completely",
             lit_fmt(need), lit_fmt(lits_s), need <= lits_s, node.line)
        rcname = [canon(r.targets[0]) for r in ast.walk(fd) if isinstance(r, ast.Assign) and ".parse_hdr(" in canon(r.value)]
        okrc = any((("False is %s" % x, False) in lits) for x in rcname)
        L.ob("C15.R2", F, fn, "... and only if the header parsed (known tag)", "rc is not False", lit_fmt(lits), okrc, node.line)
    L.require("C15.R2", F, fn, "message-returning paths", 1, n_msg)
    # ... and what is returned there IS the message object created for the record's tag, after its body was parsed into it
    for node, val in rets:
        k = canon(val) if val is not None else "None"
        if k in ("None", "False"):
            continue
        obj = val
        via_call = False
        if isinstance(val, ast.Call) and isinstance(val.func, ast.Attribute) and val.func.attr == "parse_msg":
            obj, via_call = val.func.value, True
        src = origin(fd, obj.id) if isinstance(obj, ast.Name) else [canon(obj)]
        is_msg = len(src) == 1 and src[0].startswith("self.parse_hdr(") and src[0].endswith(")[0]")
        if not is_msg:
            raise AnalysisError("%s: returned value `%s` is not recognisably the message object of the record (%s)" % (fn, k, src))
        if via_call:
            # the value of Msg.parse_msg() itself is handed out: it must be the message on EVERY return of parse_msg
            mci, pmsg = repo.need_method("data_msg", "Msg", "parse_msg")
            prets, pimpl = returns(CFG(pmsg))
            bad = [("line %s: return %s" % (n_.line, canon(v_) if v_ is not None else "")) for n_, v_ in prets if v_ is None or canon(v_) != "self"]
            bad += ["falls off the end (returns None)"] * len(pimpl)
            L.ob("C15.R2", F, fn, "`return %s`: Msg.parse_msg() hands back the message on every one of its returns (None would read as end of file)" % k,
                 "every return of Msg.parse_msg is `return self`", bad[:3], not bad, node.line)
        else:
            called = [c for c in calls_in(fd) if isinstance(c.func, ast.Attribute) and c.func.attr == "parse_msg"
                      and canon(c.func.value) == canon(obj) and cfg.dominates(cfg.node_of(c), node)]
            L.ob("C15.R2", F, fn, "the returned message had the record's body parsed into it", "%s.parse_msg(<body>) dominates the return" % canon(obj),
                 [canon(c)[:60] for c in called], bool(called), node.line)
    want_sizes = {"self.HDR_LENGTH"}
    prov = {k: (origin(fd, v) if v.isidentifier() else [v]) for k, v in rd.items()}
    hdrvars = [k for k, v in rd.items() if v == "self.HDR_LENGTH"]
    ok = len(hdrvars) == 1 and any(o == ["self.parse_hdr(%s)[1]" % hdrvars[0]] for o in prov.values())
    L.ob("C15.R2", F, fn, "header read requests HDR_LENGTH octets, body read requests the length stored in that header",
         "read(self.HDR_LENGTH), read(self.parse_hdr(<hdr>)[1])", prov, ok)
    # short reads return None (EOF / truncation) -- not False, not an exception
    for node, val in rets:
        lits = guard_literals(cfg, node, subst)
        for var, size in rd.items():
            a, b = sorted(["len(%s)" % var, size])
            if ("%s == %s" % (a, b), False) in lits:
                L.require("C15.R2", F, fn, "short read of `%s` ends reading with None" % var, "None",
                          canon(val) if val is not None else "None", line=node.line)
    # parse error of the body -> False (skipped), via catch-all
    hs = [n for n in cfg.nodes if n.kind == "handler"]
    L.ob("C15.R2", F, fn, "a record whose body does not parse is reported as False (skipped), not raised",
         "catch-all handler returning False", [canon(h.ast)[:60] for h in hs],
         any(h.ast.type is None or canon(h.ast.type) in ("Exception", "BaseException") for h in hs) and
         all(any(isinstance(s, ast.Return) and canon(s.value) == "False" for s in h.ast.body) for h in hs) and bool(hs))


def _seek_aliases(L, repo, ci):
    """Methods of the capture class that are `_seek2msg` with a log line: one parameter handed on to self._seek2msg(), the
    result truthy exactly when the positioning succeeded (folded for both outcomes, the positioning call as oracle), the
    file not touched otherwise.  Their call sites are rewritten to the positioning call itself before the shape rules
    read the callers."""
    out = []
    for nm, m in sorted(ci.methods.items()):
        if nm in ("_seek2msg", "__init__") or len(params(m)) != 2:
            continue
        calls = [c for c in calls_in(m) if canon(c.func) == "self._seek2msg"]
        if len(calls) != 1 or [canon(a) for a in calls[0].args] != [params(m)[1]] or calls[0].keywords:
            continue
        if any(canon(c.func).startswith("self.f.") for c in calls_in(m)):
            continue
        same = True
        try:
            for outcome in (True, False, None, 0, 7):
                e = Ev(repo, ci.mod, env={params(m)[1]: 3}, self_cls=ci)
                e.ignore_calls = ("log.", "logging.")
                e.hooks = {"self._seek2msg": lambda a, o=outcome: o}
                r = e.run_block(m.body)
                val = r[1] if isinstance(r, tuple) else None
                # callers test the result for truth: `if not rc`
                if bool(val) != bool(outcome):
                    same = False
        except (Unknown, Raised):
            same = False
        if same:
            out.append(nm)
    if out:
        class _Rw(ast.NodeTransformer):
            def visit_Call(self, n):
                self.generic_visit(n)
                if isinstance(n.func, ast.Attribute) and n.func.attr in out and canon(n.func.value) == "self":
                    n.func.attr = "_seek2msg"
                return n
        for nm, m in ci.methods.items():
            if nm not in out:
                _Rw().visit(m)
        L.extra["c15_seek_aliases"] = out
    return out


def r3_skip_count(L, repo, hl):
    ci, sk = repo.need_method("data_dump", "DATADumpFile", "_seek2msg")
    fn = "DATADumpFile._seek2msg"
    L.fn(F, fn)
    _seek_aliases(L, repo, ci)
    IDX = params(sk)[1]
    cfg = CFG(sk)
    loops = [n for n in ast.walk(sk) if isinstance(n, ast.For)]
    L.require("C15.R3", F, fn, "skip loop runs once per skipped record", ["range(%s)" % IDX], [canon(l.iter) for l in loops])
    seeks = [c for c in calls_in(sk) if canon(c.func) == "self.f.seek"]
    pre = [c for c in seeks if not any(c is x for l in loops for x in ast.walk(l))]
    inl = [c for c in seeks if c not in pre]
    L.require("C15.R3", F, fn, "rewinds to the start of the file first", [["0"]], [[canon(a) for a in c.args] for c in pre])
    for c in pre:
        L.ob("C15.R3", F, fn, "the rewind precedes the loop", "before", c.lineno, loops and c.lineno < loops[0].lineno)
    if pre and loops:
        # ... on EVERY path: a shortcut that keeps the current position (a remembered index) is only as good as the
        # invalidation of that memory by everything that moves the position
        lp_node = cfg.node_of(loops[0])
        dom = cfg.must_pass(cfg.entry, [cfg.node_of(c) for c in pre], lp_node)
        L.ob("C15.R3", F, fn, "every path into the skip loop rewinds the file first (the skip count is relative to the start of the capture)",
             "seek(0) on every path to the loop", "a path reaches the loop without rewinding" if not dom else "on every path", dom, pre[0].lineno)
    for c in inl:
        args = [canon(a) for a in c.args]
        prov = origin(sk, args[0]) if args and args[0].isidentifier() else args[:1]
        def _skip_shape(c=c, prov=prov, args=args):
            L.ob("C15.R3", F, fn, "each iteration skips the stored length relative to the position after the header",
                 "seek(self.parse_hdr(<hdr>)[1], 1)", (prov, args[1:]), len(args) == 2 and args[1] == "1" and
                 len(prov) == 1 and prov[0].startswith("self.parse_hdr(") and prov[0].endswith(")[1]"), c.lineno)
        if L.extra.get("c15_r7_histories"):
            # what the skip loop does to the position is decided by R7's folds of parse_msg(i) / parse_all(skip = n)
            L.structural("C15.R3 the skip is a relative seek by the header's length field", _skip_shape)
        else:
            _skip_shape()
        lits = guard_literals(cfg, cfg.node_of(c))
        hdr_reads = [n for n in ast.walk(loops[0]) if isinstance(n, ast.Assign) and isinstance(n.value, ast.Call)
                     and canon(n.value.func) == "self.f.read"]
        ok = False
        for r in hdr_reads:
            a, b = sorted(["len(%s)" % canon(r.targets[0]), canon(r.value.args[0])])
            if ("%s == %s" % (a, b), True) in lits:
                ok = True
        L.ob("C15.R3", F, fn, "the skip happens only after a complete header was read", "len(hdr) == HDR_LENGTH", lit_fmt(lits), ok, c.lineno)
    L.require("C15.R3", F, fn, "one relative seek per iteration", 1, len(inl))
    rets, implicit = returns(cfg)
    for node, val in rets:
        lp = cfg.in_loop(node)
        v = canon(val) if val is not None else "None"
        if lp is None:
            L.require("C15.R3", F, fn, "after idx records were skipped the position is reported valid", "True", v, line=node.line)
        else:
            L.require("C15.R3", F, fn, "a truncated / unknown header inside the skip loop reports failure", "False", v, line=node.line)
    # parse_msg(idx)
    ci, pm = repo.need_method("data_dump", "DATADumpFile", "parse_msg")
    fw = Fwd(split=True)
    fw.run(pm.body)
    P = params(pm)[1]
    got = sorted((tuple(c for c in conds), canon(r) if r is not None else "None") for conds, r in fw.returns)
    want = sorted([((("self._seek2msg(%s)" % P, False),), "None"), ((("self._seek2msg(%s)" % P, True),), "self._parse_msg()")])
    # decided by folding parse_msg(i) for index witnesses with the skip and the record reader as recording oracles
    import consteval as _ce
    Opaque = _ce.Opaque
    folded = True
    for idx_ in (0, 1, 2, 7, 300):
        for found in (True, False):
            seeks, reads = [], []
            e_ = _ce.Ev(repo, ci.mod, env={P: idx_}, self_cls=ci)
            e_.ignore_calls = ("log.", "logging.")
            e_.hooks = {"self._seek2msg": lambda a, seeks=seeks, found=found: (seeks.append(tuple(a)), found)[1],
                        "self._parse_msg": lambda a, reads=reads: (reads.append(tuple(a)), Opaque("MSG"))[1]}
            try:
                r_ = e_.run_block(pm.body)
                res = (r_[1] if isinstance(r_, tuple) else None)
            except _ce.Raised as ex:
                res = "raises %s" % ex.cls
            except _ce.Unknown:
                folded = False
                break
            L.require("C15.R3", F, "DATADumpFile.parse_msg", "parse_msg(%d), %s: skip exactly %d records once, then read one record (or report None)" % (
                idx_, "record present" if found else "capture too short", idx_),
                ([(idx_,)], [()] if found else [], Opaque("MSG") if found else None), (seeks, reads, res))
        if not folded:
            break
    if folded:
        L.structural("C15.R3 shape of parse_msg (seek, then read)", L.require, "C15.R3", F, "DATADumpFile.parse_msg",
                     "random access = skip idx records, then read one", want, got)
    else:
        L.require("C15.R3", F, "DATADumpFile.parse_msg", "random access = skip idx records, then read one", want, got)
    # parse_all
    ci, pa = repo.need_method("data_dump", "DATADumpFile", "parse_all")
    fn = "DATADumpFile.parse_all"
    L.fn(F, fn)
    ps = params(pa)
    SKIP, COUNT = ps[1], ps[2]
    loops = [n for n in ast.walk(pa) if isinstance(n, ast.While)]
    L.require("C15.R3", F, fn, "one read loop", 1, len(loops))
    if len(loops) != 1:
        return
    loop = loops[0]
    li = next((i for i, s_ in enumerate(pa.body) if any(x is loop for x in ast.walk(s_))), None)
    if li is None:
        raise AnalysisError("parse_all: read loop is not a top-level statement")
    pre = pa.body[:li]
    after = pa.body[li + 1:]
    tail_ret = canon(after[0].value) if after and isinstance(after[0], ast.Return) and after[0].value is not None else None

    # a conditional expression on `skip` inside a statement is the two-branch form of that statement
    class SplitIf(ast.NodeTransformer):
        def __init__(self):
            self.found = None

        def visit_IfExp(self, n):
            if self.found is None and any(isinstance(x, ast.Name) and x.id == SKIP for x in ast.walk(n.test)):
                self.found = n
            return n

    def split_stmts(stmts):
        out = []
        for st in stmts:
            sp = SplitIf()
            sp.visit(st)
            if sp.found is None or not isinstance(st, (ast.Assign, ast.Expr)):
                out.append(st)
                continue
            from pyfront import clone as _cl

            def with_branch(pick):
                class R(ast.NodeTransformer):
                    def visit_IfExp(self_, n):
                        if ast.dump(n) == ast.dump(sp.found):
                            return _cl(pick(n))
                        return self_.generic_visit(n)
                return R().visit(_cl(st))
            out.append(ast.copy_location(ast.If(test=sp.found.test, body=[with_branch(lambda n: n.body)],
                                                orelse=[with_branch(lambda n: n.orelse)]), st))
        return out
    fw = Fwd(split=True)
    fw.run(split_stmts(pre))
    # _seek2msg(0): rewinds and, skipping nothing, reports success (folded from its source)
    from consteval import Ev, Unknown, Raised
    seek0 = None
    try:
        e0 = Ev(repo, ci.mod, env={IDX: 0}, self_cls=ci)
        seeks0 = []
        e0.hooks = {"self.f.seek": lambda a: seeks0.append(tuple(a)), "self.f.read": lambda a: b""}
        r0 = e0.run_block(sk.body)
        seek0 = (r0[1] if isinstance(r0, tuple) else None, seeks0)
    except (Unknown, Raised):
        seek0 = None
    seek0_ok = seek0 == (True, [(0,)])
    start_ok, bad_start = False, []
    for c_, e_ in fw.effects:
        if "log." in e_:
            continue
        if ("None is %s" % SKIP, True) in c_ and e_ == "self.f.seek(0)":
            start_ok = True
    for c_, r_ in list(fw.returns) + [(c2, None) for c2, _e in fw.effects]:
        if ("None is %s" % SKIP, True) in c_ and any(t_.startswith("self._seek2msg(0)") for t_, p_ in c_) and seek0_ok:
            start_ok = True
    if not start_ok:
        # the positioning call may be bound to a local that is tested afterwards
        for c_, e_ in fw.effects:
            pass
        txt = "\n".join(canon(x) for x in split_stmts(pre))
        if "self._seek2msg(0)" in txt and seek0_ok:
            start_ok = True
    L.ob("C15.R3", F, fn, "without skip the file is read from the start (seek(0), directly or through _seek2msg(0))",
         "self.f.seek(0) on the path where skip is None", sorted((tuple(c), e) for c, e in fw.effects if "log." not in e)[:3], start_ok, pa.lineno)
    rr = sorted((tuple(c), canon(r) if r is not None else "None") for c, r in fw.returns)
    # a failure of _seek2msg(0) cannot happen (folded above): such paths are infeasible
    rr = [x for x in rr if not (seek0_ok and any(t_ == "self._seek2msg(0)" and not p_ for t_, p_ in x[0]))]
    want_r = [((("None is %s" % SKIP, False), ("self._seek2msg(%s)" % SKIP, False)), "False")]
    L.require("C15.R3", F, fn, "with skip the file is positioned by _seek2msg(skip); failure is a range error (False)", want_r, rr)
    # loop body decision table
    msgdefs = [n for n in loop.body if isinstance(n, ast.Assign) and canon(n.value) == "self._parse_msg()"]
    L.require("C15.R3", F, fn, "one record is read per iteration", 1, len(msgdefs))
    if len(msgdefs) != 1:
        return
    MV = canon(msgdefs[0].targets[0])
    RES = None
    for n in ast.walk(pa):
        if isinstance(n, ast.Return) and n.value is not None and isinstance(n.value, ast.Name) and any(n is x for x in after):
            RES = n.value.id

    def evn(st):
        if isinstance(st, ast.Expr) and isinstance(st.value, ast.Call):
            t = canon(st.value)
            if t.startswith("log."):
                return None
            return ("call", t)
        if isinstance(st, ast.Assign) and st in msgdefs:
            return None
        if isinstance(st, ast.Return):
            if st.value is not None and tail_ret is not None and canon(st.value) == tail_ret:
                return ("break",)       # leaving the loop towards `return <the list>` is what `break` does
            return ("ret", canon(st.value) if st.value else None)
        if isinstance(st, ast.Assign):
            return ("store", canon(st))
        return None

    class W2(Walker):
        def walk(self, stmts, assign, events):
            for st in stmts:
                if isinstance(st, ast.Break):
                    events.append(("break",))
                    return "loop"
                if isinstance(st, ast.Continue):
                    return "loop"        # going on with the next record: no effect of its own
                r = Walker.walk(self, [st], assign, events)
                if r:
                    return r
            return None
    W = W2(evn)
    atoms, rows = W.table(loop.body)
    A_NONE, A_FALSE = "None is %s" % MV, "False is %s" % MV
    A_CNT, A_FULL = "None is %s" % COUNT, None
    for a in atoms:
        if a.startswith("%s == len(" % COUNT) or (a.startswith("len(") and a.endswith("== %s" % COUNT)):
            A_FULL = a
    L.require("C15.R3", F, fn, "atoms of the read loop", sorted(x for x in [A_NONE, A_FALSE, A_CNT, A_FULL] if x), sorted(atoms))
    if A_FULL is None or sorted(atoms) != sorted([A_NONE, A_FALSE, A_CNT, A_FULL]):
        return
    L.require("C15.R3", F, fn, "count is compared with the number of collected messages",
              "%s == len(%s)" % tuple(sorted([COUNT, RES or "?"])[:1] + [RES or "?"]) if False else "len(%s)" % RES,
              A_FULL.replace("%s == " % COUNT, "").replace(" == %s" % COUNT, ""))
    for vals, evs in sorted(rows.items()):
        a = dict(zip(atoms, vals))
        if a[A_NONE] and a[A_FALSE]:
            continue
        if a[A_NONE]:
            want = (("break",),)
        elif a[A_FALSE]:
            want = ()
        else:
            want = [("call", "%s.append(%s)" % (RES, MV))]
            if not a[A_CNT] and a[A_FULL]:
                want.append(("break",))
            want = tuple(want)
        L.require("C15.R3", F, fn, "read loop with eof=%d unparsable=%d no_count=%d count_reached=%d" % (
            a[A_NONE], a[A_FALSE], a[A_CNT], a[A_FULL]), want, evs)
    resdef = [canon(n.value) for n in ast.walk(pa) if isinstance(n, ast.Assign) and canon(n.targets[0]) == RES]
    L.require("C15.R3", F, fn, "result list starts empty", ["[]"], resdef)
    # append path: decided by folding append_msg / append_all with the file object and dump_msg() as recording oracles
    folded = _append_fold(L, repo)
    if folded:
        L.structural("C15.R3 shape of the append path (effects of append_msg, loop of append_all)", _append_shape, L, repo)
    else:
        _append_shape(L, repo)
    # the capture is opened for reading and writing in binary mode without discarding what it already holds (a re-opened
    # capture must still return the messages stored earlier); where the writes land is R6's business
    ci, init = repo.need_method("data_dump", "DATADumpFile", "__init__")
    opens = [c for c in calls_in(init) if canon(c.func) == "open"]
    L.floor("C15.R3", "open() calls in DATADumpFile.__init__", len(opens), 1)
    for c in opens:
        mode = c.args[1] if len(c.args) > 1 else next((k.value for k in c.keywords if k.arg == "mode"), None)
        mv = mode.value if isinstance(mode, ast.Constant) and isinstance(mode.value, str) else None
        if mv is None:
            raise AnalysisError("DATADumpFile.__init__: open() mode is not a literal: %s" % canon(c))
        ms = set(mv)
        keeps = ("a" in ms or "r" in ms) and "+" in ms and "b" in ms and "w" not in ms and "x" not in ms
        if not keeps and ms == set("w+b"):
            # truncating is harmless exactly when there is nothing to lose: inside a handler for "file does not exist"
            q, prev = getattr(c, "_parent", None), c
            while q is not None and not isinstance(q, ast.FunctionDef):
                if isinstance(q, ast.ExceptHandler) and q.type is not None and canon(q.type) == "FileNotFoundError":
                    keeps = True
                prev, q = q, getattr(q, "_parent", None)
        L.ob("C15.R3", F, "DATADumpFile.__init__", "capture is opened in a binary read+write mode that keeps the stored messages",
             "'a+b' / 'r+b' (or 'w+b' only when the file does not exist)", canon(c), keeps, c.lineno)


def _append_shape(L, repo):
    # append path
    ci, am = repo.need_method("data_dump", "DATADumpFile", "append_msg")
    fw = Fwd()
    fw.run(am.body)
    P = params(am)[1]
    import re as _re
    file_eff = [(tuple(c), e) for c, e in fw.effects if _re.search(r"\bself\.f\b", e) and not e.startswith("log.")]
    L.require("C15.R3", F, "DATADumpFile.append_msg", "append writes exactly dump_msg(msg) (effects on the capture file)",
              [((), "self.f.write(self.dump_msg(%s))" % P)], [x for x in file_eff if not x[1].startswith("self.f.seek(")])   # (the position is R6's)
    # (effects on other state - counters, log lines - do not concern the capture)
    rets_ = [r for c_, r in fw.returns if r is not None]
    L.ob("C15.R3", F, "DATADumpFile.append_msg", "append cannot be skipped (no early return / raise before the write)",
         "no conditional exit", [canon(r) for r in rets_][:3] + [x[1] for x in fw.raises][:3], not fw.raises and not any(c_ for c_, r in fw.returns))
    ci, aa = repo.need_method("data_dump", "DATADumpFile", "append_all")
    lp = [n for n in ast.walk(aa) if isinstance(n, ast.For)]
    P = params(aa)[1]
    ok = len(lp) == 1 and canon(lp[0].iter) == P and [canon(s) for s in lp[0].body] == ["self.append_msg(%s)" % canon(lp[0].target)]
    L.ob("C15.R3", F, "DATADumpFile.append_all", "append_all appends every message in list order",
         "for m in msgs: self.append_msg(m)", [canon(l)[:80] for l in lp], ok)


def _append_fold(L, repo):
    """append_msg(m) / append_all([m...]) folded with recording oracles for the file object and dump_msg(): the octets
    written, in order, are exactly the records of the messages, in order; a message that cannot be dumped (ValueError)
    leaves the records before it stored and is reported to the caller.  (List lengths 0..3 are witnesses of the loop;
    the position typestate is R6's.)  -> False when the code leaves the evaluator's vocabulary"""
    from consteval import Opaque
    ci = repo.need_class("data_dump", "DATADumpFile")
    c1, am = repo.need_method("data_dump", "DATADumpFile", "append_msg")
    c2, aa = repo.need_method("data_dump", "DATADumpFile", "append_all")
    rec = {"m1": b"\x01\x00\x03abc", "m2": b"\x02\x00\x01z", "m3": b"\x01\x00\x00", "BAD": None}

    def run(fd, arg):
        ops = []

        def dump(a, kw):
            m = a[0].text if a and isinstance(a[0], Opaque) else None
            if m not in rec or len(a) != 1:
                raise Unknown("dump_msg called with %r" % (a,))
            if rec[m] is None:
                raise Raised("ValueError")
            if any(v for v in kw.values()):
                return b"\xff" + rec[m]        # an option that changes the stored octets
            return rec[m]
        dump.wants_kw = True

        def fop(name):
            def h(a):
                ops.append((name, tuple(bytes(x) if isinstance(x, (bytes, bytearray)) else x for x in a)))
                return None
            return h
        e = Ev(repo, ci.mod, env={params(fd)[1]: arg}, self_cls=ci)
        e.ignore_calls = ("log.", "logging.")
        e.hooks = {"self.dump_msg": dump, "self.f.write": fop("write"), "self.f.seek": fop("seek"), "self.f.flush": fop("flush"),
                   "self.f.tell": lambda a: 0}
        raised = None
        try:
            e.run_block(fd.body)
        except Raised as ex:
            raised = ex.cls
        written = b"".join(o[1][0] for o in ops if o[0] == "write" and o[1] and isinstance(o[1][0], bytes))
        return written, raised
    try:
        rows = []
        for m in ("m1", "m2", "BAD"):
            rows.append(("append_msg(%s)" % m, run(am, Opaque(m)), (rec[m] or b"", None if rec[m] else "ValueError")))
        for lst in ([], ["m1"], ["m1", "m2"], ["m2", "m1", "m3"], ["m1", "BAD", "m3"], ["BAD"]):
            want = b""
            wr = None
            for m in lst:
                if rec[m] is None:
                    wr = "ValueError"
                    break
                want += rec[m]
            rows.append(("append_all([%s])" % ", ".join(lst), run(aa, [Opaque(m) for m in lst]), (want, wr)))
    except Unknown:
        return False
    for title, got, want in rows:
        L.require("C15.R3", F, "DATADumpFile." + title.split("(")[0], "%s stores exactly the records of the messages, in order%s" % (
            title, "; the message that cannot be dumped is reported, the records before it stay stored" if want[1] else ""), want, got)
    return True


# ---------------------------------------------------------------------------------------------------------------
# R6: records are written at the end of the capture (typestate of the file position)

def _own_exprs(node):
    """the expressions a CFG node evaluates itself (not those of nested blocks)"""
    a = node.ast
    if a is None:
        return []
    if node.kind == "cond":
        return [a.test]
    if node.kind == "loop":
        return [a.iter]
    if node.kind == "with":
        return [i.context_expr for i in a.items]
    if node.kind == "handler":
        return []
    if isinstance(a, (ast.FunctionDef, ast.ClassDef, ast.AsyncFunctionDef)):
        return []
    return [a]


def _is_seek_end(repo, ci, call):
    """self.f.seek(<anything>, 2 | os.SEEK_END | io.SEEK_END) with offset 0"""
    if canon(call.func) != "self.f.seek" or call.keywords:
        return False
    if len(call.args) != 2:
        return False
    off, wh = call.args
    if not (isinstance(off, ast.Constant) and off.value == 0):
        return False
    if isinstance(wh, ast.Constant):
        return wh.value == 2
    return canon(wh) in ("os.SEEK_END", "io.SEEK_END", "SEEK_END")


def _pos_summary(repo, ci, methods, name, summ, depth=0):
    """how a call of self.<name>() leaves the position of the capture file: 'neutral' (does not touch it), 'end'
    (every normal exit leaves it at the end of the file), 'moves' (anything else)"""
    if name in summ:
        return summ[name]
    fd = methods.get(name)
    if fd is None or depth > 6:
        return "moves" if fd is None and name not in ("dump_msg", "parse_hdr") else "neutral"
    summ[name] = "moves"          # recursion guard
    states, touched = _pos_flow(repo, ci, methods, fd, summ, depth)
    cfg = states["cfg"]
    if not touched:
        summ[name] = "neutral"
    else:
        outs = [states["out"][p.id] for p, _l in cfg.exit.pred]
        summ[name] = "end" if outs and all(outs) else "moves"
    return summ[name]


def _pos_flow(repo, ci, methods, fd, summ, depth=0):
    """forward must-analysis over the CFG of one method: is the file position known to be the end of the file?"""
    cfg = CFG(fd)
    touched = [False]

    def transfer(node, st):
        for e in _own_exprs(node):
            calls = [c for c in ast.walk(e) if isinstance(c, ast.Call)]
            calls.sort(key=lambda c: (getattr(c, "end_lineno", 0), getattr(c, "end_col_offset", 0)))   # evaluation order: inner / earlier first
            for c in calls:
                t = canon(c.func)
                if t.startswith("self.f."):
                    touched[0] = True
                    op = t[len("self.f."):]
                    if op == "seek":
                        st = _is_seek_end(repo, ci, c)
                    elif op in ("write", "tell", "flush", "fileno", "close"):
                        pass
                    else:
                        st = False
                elif t.startswith("self.") and t.count(".") == 1:
                    k = _pos_summary(repo, ci, methods, t[5:], summ, depth + 1)
                    if k != "neutral":
                        touched[0] = True
                    st = True if k == "end" else st if k == "neutral" else False
                elif any(canon(a) == "self.f" for a in list(c.args) + [k.value for k in c.keywords]):
                    touched[0] = True
                    st = False
        return st
    inn = {n.id: True for n in cfg.nodes}
    out = {n.id: True for n in cfg.nodes}
    inn[cfg.entry.id] = False
    # nodes of a `finally` block are also entered from every statement of the protected body (exception in flight)
    extra_pred = {}
    for t in [x for x in ast.walk(fd) if isinstance(x, ast.Try) and x.finalbody]:
        first = None
        try:
            first = cfg.node_of(t.finalbody[0])
        except AnalysisError:
            continue
        body_nodes = set()
        for st_ in t.body + [h_ for h in t.handlers for h_ in h.body] + t.orelse:
            for x in ast.walk(st_):
                n_ = cfg.by_ast.get(id(x))
                if n_ is not None:
                    body_nodes.add(n_.id)
        extra_pred[first.id] = body_nodes
    byid = {n.id: n for n in cfg.nodes}
    changed = True
    rounds = 0
    while changed and rounds < 200:
        changed = False
        rounds += 1
        for n in cfg.nodes:
            if n is cfg.entry:
                i = False
            else:
                preds = [p.id for p, _l in n.pred] + list(extra_pred.get(n.id, ()))
                i = all(out[p] for p in preds) if preds else False
            o = transfer(n, i)
            if i != inn[n.id] or o != out[n.id]:
                inn[n.id], out[n.id] = i, o
                changed = True
    return {"cfg": cfg, "in": inn, "out": out, "transfer": transfer}, touched[0]


def r6_append_position(L, repo):
    """R6 (appended messages are returned by a full read / random access): reading moves the position of the capture
    file object, and a buffered Python file opened 'a+b' (or any already opened file handed in) stores what is
    written at the object's CURRENT position as far as later reads through the same object are concerned - a record
    written after a read without repositioning overwrites (or, in append mode, shadows) stored records.  Every
    write to the capture must therefore happen with the position known to be the end of the file: typestate
    {unknown, at end} propagated over the CFG of each method (seek(0, 2) establishes it, read / other seeks / calls
    that move the position destroy it, calls of methods that leave the position at the end establish it)."""
    ci = repo.need_class("data_dump", "DATADumpFile")
    methods = {}
    for c in reversed(repo.mro(ci)):
        for k, v in c.methods.items():
            methods[k] = v
    summ = {}
    nw = 0
    for name, fd in sorted(methods.items()):
        writes = [c for c in calls_in(fd) if canon(c.func) == "self.f.write"]
        if not writes:
            continue
        fn = "DATADumpFile." + name
        L.fn(F, fn)
        st, _t = _pos_flow(repo, ci, methods, fd, summ)
        cfg = st["cfg"]
        for w in writes:
            nw += 1
            node = cfg.node_of(w)
            # state right before this call inside its statement
            state = st["in"][node.id]
            for e in _own_exprs(node):
                calls = [c for c in ast.walk(e) if isinstance(c, ast.Call)]
                calls.sort(key=lambda c: (getattr(c, "end_lineno", 0), getattr(c, "end_col_offset", 0)))
                for c in calls:
                    if c is w:
                        break
                    t = canon(c.func)
                    if t == "self.f.seek":
                        state = _is_seek_end(repo, ci, c)
                    elif t.startswith("self.f.") and t[7:] not in ("write", "tell", "flush", "fileno"):
                        state = False
                    elif t.startswith("self.") and t.count(".") == 1:
                        k = _pos_summary(repo, ci, methods, t[5:], summ, 1)
                        state = True if k == "end" else state if k == "neutral" else False
            L.ob("C15.R6", F, fn, "`%s` happens with the file position at the end of the capture on every path (a read may have moved it)" % canon(w)[:60],
                 "position = end of file (seek(0, 2) since the last read / seek)", "end of file" if state else "position unknown: no seek to the end dominates the write",
                 state, w.lineno)
    L.floor("C15.R6", "writes to the capture file", nw, 1)
    # nobody else writes to the capture
    n_ext = 0
    for m in repo.tk_modules():
        for c in [x for x in ast.walk(m.tree) if isinstance(x, ast.Call)]:
            t = canon(c.func)
            if t.endswith(".f.write") and t != "self.f.write":
                n_ext += 1
                L.ob("C15.R6", m.rel, qualname(c), "the capture file is written only by DATADumpFile's own methods", "self.f.write inside DATADumpFile", t, False, c.lineno)
    L.ob("C15.R6", F, "DATADumpFile", "writes to a capture file object from outside the class", 0, n_ext, n_ext == 0)


class _FileModel:
    """The checker's model of a binary random-access file (position, read at most n, seek with whence, write at the
    position): what the capture object does to its file is replayed on it."""

    def __init__(self, data):
        self.b, self.pos = bytearray(data), 0

    def read(self, a):
        n = a[0] if a else -1
        r = bytes(self.b[self.pos:] if n is None or n < 0 else self.b[self.pos:self.pos + n])
        self.pos += len(r)
        return r

    def seek(self, a):
        off, wh = a[0], (a[1] if len(a) > 1 else 0)
        self.pos = off if wh == 0 else self.pos + off if wh == 1 else len(self.b) + off
        return self.pos

    def tell(self, a):
        return self.pos

    def write(self, a):
        data = bytes(a[0])
        self.b[self.pos:self.pos + len(data)] = data
        self.pos += len(data)
        return len(data)


def r7_histories(L, repo):
    """R7 (whatever was stored is returned - for every HISTORY of calls on one capture object): DATADumpFile's public
    methods are folded in sequence on ONE object state (constructor included; attributes persist between the calls) over
    the checker's file model holding three records (Tx, Rx, Tx; the last variant truncated inside its body): full read
    twice, random access then full read, skip / count windows then full read, a skip past the end then full read, append
    after a read then full read.  Every call must return exactly the records the file holds at that moment, selected by
    its arguments - a remembered end-of-file, index or offset that one of the calls forgets to invalidate shows up as a
    later call returning something else."""
    from consteval import Opaque
    ci = repo.need_class("data_dump", "DATADumpFile")
    # payloads with the lengths of real records: a Tx message with a GMSK burst (6 + 148 octets), the shortest legal record - a
    # TRXDv1 NOPE indication (11 octets) -, a Tx message with an EDGE burst (6 + 444)
    recs = [(b"\x01", bytes([0x00, 1, 2, 3, 4, 5]) + bytes([1, 0] * 74)), (b"\x02", bytes([0x10, 0, 0, 0, 9, 60, 0, 0, 0x80, 0, 0])),
            (b"\x01", bytes([0x01, 0, 0, 0, 7, 0]) + bytes([0, 1, 1] * 148))]
    tag_cls = {}
    for nm, v in (("TAG_TxMsg", "Tx"), ("TAG_RxMsg", "Rx")):
        try:
            tag_cls[bytes(Ev(repo, ci.mod, self_cls=ci).class_attr(ci, nm))] = v
        except (Unknown, Raised, TypeError):
            raise AnalysisError("DATADump.%s does not fold" % nm)

    def blob(rs):
        return b"".join(t + struct.pack(">H", len(p)) + p for t, p in rs)

    def want_of(rs, skip=None, count=None):
        out = [(tag_cls.get(t, "?"), p) for t, p in rs]
        if skip is not None:
            if skip > len(out):
                return False
            out = out[skip:]
        if count is not None:
            out = out[:count]
        return out
    NEW = (b"\x02", bytes([0x00, 0, 0, 1, 0, 70, 0, 0]) + bytes([127] * 148))
    histories = [
        ("full read twice", [("parse_all", {}), ("parse_all", {})]),
        ("random access, then full read", [("parse_msg", {"idx": 1}), ("parse_all", {}), ("parse_msg", {"idx": 0})]),
        ("count window, then full read", [("parse_all", {"count": 1}), ("parse_all", {}), ("parse_all", {"skip": 1, "count": 1})]),
        ("skip to the end and past it, then full read", [("parse_all", {"skip": 3}), ("parse_all", {"skip": 4}), ("parse_all", {})]),
        ("index past the end, then first record", [("parse_msg", {"idx": 5}), ("parse_msg", {"idx": 0}), ("parse_all", {})]),
        ("append after a full read, then full read", [("parse_all", {}), ("append_msg", {"msg": "NEW"}), ("parse_all", {}), ("parse_msg", {"idx": 3})]),
    ]
    n = 0
    for trunc in (0, 1):
        data = blob(recs)[:len(blob(recs)) - trunc]
        held0 = recs if not trunc else recs[:2]
        for title, hist in histories:
            if trunc:
                # a record cut inside its body still has a complete header: whether it counts for skip / index past the
                # end, and what an append behind it means, is not specified - those steps are left out
                if any(m == "append_msg" for m, _k in hist):
                    continue
                hist = [(m, k) for m, k in hist if not (k.get("skip", 0) > len(held0) or k.get("idx", 0) > len(held0))]
            f = _FileModel(data)
            held = list(held0)
            parsed = {}
            made = []
            e = Ev(repo, ci.mod, env={}, self_cls=ci)
            e.ignore_calls = ("log.", "logging.")

            def mk(kind, e=e, parsed=parsed, made=made):
                def h(a, kw=None):
                    name = "%s#%d" % (kind, len(made))
                    made.append(name)

                    def parse(args, nm=name):
                        parsed[nm] = bytes(args[0])
                    e.hooks[name + ".parse_msg"] = parse
                    o_ = Opaque(name)
                    try:
                        o_.ci = repo.need_class("data_msg", kind + "Msg")
                    except AnalysisError:
                        pass
                    return o_
                return h

            def dump(a):
                return NEW[0] + struct.pack(">H", len(NEW[1])) + NEW[1]
            e.hooks = {"self.f.read": f.read, "self.f.seek": f.seek, "self.f.tell": f.tell, "self.f.write": f.write,
                       "self.f.flush": lambda a: None, "TxMsg": mk("Tx"), "RxMsg": mk("Rx"), "self.dump_msg": dump}

            def call(meth, kw):
                c, fd = repo.find_method(ci, meth)
                if fd is None:
                    raise AnalysisError("DATADumpFile.%s vanished" % meth)
                a_ = fd.args
                dflt = dict(zip([p.arg for p in a_.args[len(a_.args) - len(a_.defaults):]], a_.defaults))
                bound = [("self", "<self>")]
                for p in a_.args[1:]:
                    if p.arg in kw:
                        bound.append((p.arg, Opaque("NEW") if kw[p.arg] == "NEW" else kw[p.arg]))
                    elif p.arg in dflt:
                        bound.append((p.arg, e.ev(dflt[p.arg])))
                    else:
                        raise AnalysisError("DATADumpFile.%s: parameter %s is not part of the documented interface" % (meth, p.arg))
                return e.call_func(fd, c.mod, bound, self_cls=ci, writeback=True)

            def show(r):
                if isinstance(r, list):
                    return [(x.text.split("#")[0], parsed.get(x.text)) if isinstance(x, Opaque) else x for x in r]
                if isinstance(r, Opaque):
                    return (r.text.split("#")[0], parsed.get(r.text))
                return r
            try:
                c0, init = repo.find_method(ci, "__init__")
                if init is not None:
                    try:
                        e.call_func(init, c0.mod, [("self", "<self>"), (params(init)[1], Opaque("the capture file"))], self_cls=ci, writeback=True)
                    except (Unknown, Raised):
                        # the constructor's choice between a path and a file object leaves the evaluator's vocabulary: take
                        # over the constant initial values it stores (flags, counters, empty caches)
                        for st_ in ast.walk(init):
                            if isinstance(st_, ast.Assign) and len(st_.targets) == 1 and canon(st_.targets[0]).startswith("self.") \
                                    and isinstance(st_.value, (ast.Constant, ast.List, ast.Dict, ast.Tuple)):
                                try:
                                    e.env[canon(st_.targets[0])] = e.ev(st_.value)
                                except (Unknown, Raised):
                                    pass
                    e.env["self.f"] = Opaque("the capture file")
                for i, (meth, kw) in enumerate(hist):
                    got = show(call(meth, kw))
                    if meth == "append_msg":
                        held.append(NEW)
                        want = None
                        L.require("C15.R7", F, "DATADumpFile", "%s%s - step %d %s: the file holds the stored records followed by the new one" % (
                            title, " [last record truncated]" if trunc else "", i + 1, meth),
                            blob(held0) + blob([NEW]) if not trunc else None, bytes(f.b) if not trunc else None)
                        continue
                    if meth == "parse_msg":
                        w = want_of(held)
                        want = w[kw["idx"]] if kw["idx"] < len(w) else None
                    else:
                        want = want_of(held, kw.get("skip"), kw.get("count"))
                    n += 1
                    L.require("C15.R7", F, "DATADumpFile", "%s%s - step %d %s(%s) returns the records the file holds, selected by its arguments" % (
                        title, " [last record truncated]" if trunc else "", i + 1, meth, ", ".join("%s=%s" % kv for kv in sorted(kw.items()))),
                        want, got)
            except (Unknown, Raised) as ex:
                raise AnalysisError("DATADumpFile does not fold on the history `%s`: %s" % (title, ex))
    L.floor("C15.R7", "calls folded in histories", n, 25)
    L.extra["c15_r7_histories"] = n


def run(L, tier):
    repo = Repo(L.repo)
    L.stage(r7_histories, L, repo)
    hl = L.stage(r1_framing, L, repo)
    L.stage(r2_short_read, L, repo)
    L.stage(r3_skip_count, L, repo, hl)
    L.stage(r6_append_position, L, repo)
