# C05 -- every TRXC command gets exactly one well-formed response with the
# documented effect.

import ast
import json
import os
import re

from report import AnalysisError, VERIF
from pyfront import (Repo, CFG, canon, guard_literals, literals, qualname,
                     calls_in, TK)
from pyutil import params, deep_subst, find_calls, returns, lit_fmt, rel, name_of, branch_subst, fmt_norm
from dtable import Walker
from consteval import Ev, fold, Unknown, Raised

EXPLANATION = (
    "Decision tables of CTRLInterface.handle_rx (exactly one send_response "
    "iff the CMD signature verified, to the remote of the same recvfrom), "
    "structural normal form of the reply string, return-value analysis of both "
    "command dispatchers (every path returns a status), extraction of the "
    "verb/arity table from the verify_cmd call sites compared with "
    "spec/trxc.json and with every command trxcon emits (clang AST of "
    "trx_if.c), decision tables of SETFORMAT/MEASURE, exhaustive folding of "
    "set_hdr_ver/pick_hdr_ver over the 4-bit version domain, and the "
    "reader/writer buffer-size agreement with trxcon.")
ASSUMPTIONS = [
    "status/side effects as a function of the whole command history are decided only through the per-branch guard rules",
    "UDP datagram semantics of recvfrom(n): a longer datagram is silently truncated to n octets",
]
FC = rel("ctrl_if")
FT = rel("ctrl_if_trx")
FF = rel("fake_trx")


def flat_add(e):
    if isinstance(e, ast.BinOp) and isinstance(e.op, ast.Add):
        return flat_add(e.left) + flat_add(e.right)
    return [e]


def _recv_into(a, data, peer):
    """socket.recvfrom_into(buffer[, nbytes]): the datagram's first octets overwrite the start of the buffer, the rest of the
    buffer keeps what it held"""
    buf = a[0]
    n = min(len(data), len(buf) if len(a) < 2 or not a[1] else min(len(buf), a[1]))
    buf[:n] = data[:n]
    return (n, peer)


def fold_replies(L, repo):
    """R1/R2 decided by folding the WHOLE receive path (handle_rx -> verify_req/prepare_req -> [parse_cmd: oracle]
    -> send_response -> sendto) for scenario datagrams and handler results: number of datagrams sent, their exact
    text and their destination. Returns True when every scenario folded (then the shape-based fallbacks of R1/R2
    are not needed), False when the code leaves the evaluator's vocabulary."""
    ci, fd = repo.need_method("ctrl_if", "CTRLInterface", "handle_rx")
    fn = "CTRLInterface.handle_rx"
    PEER = ("10.0.0.1", 5555)
    scen = [
        ("CMD POWERON", b"CMD POWERON\0", 0, [b"RSP POWERON 0\0"]),
        ("CMD POWEROFF answered -1", b"CMD POWEROFF\0", -1, [b"RSP POWEROFF -1\0"]),
        ("CMD RXTUNE 941600", b"CMD RXTUNE 941600\0", 0, [b"RSP RXTUNE 0 941600\0"]),
        ("CMD SETSLOT 8 1 answered -1", b"CMD SETSLOT 8 1\0", -1, [b"RSP SETSLOT -1 8 1\0"]),
        ("CMD MEASURE 941600 with result", b"CMD MEASURE 941600\0", (0, ["-90"]), [b"RSP MEASURE 0 941600 -90\0"]),
        ("CMD NOMTXPOWER with result", b"CMD NOMTXPOWER\0", (0, ["50"]), [b"RSP NOMTXPOWER 0 50\0"]),
        ("CMD SETFORMAT 7 answered 1", b"CMD SETFORMAT 7\0", 1, [b"RSP SETFORMAT 1 7\0"]),
        ("CMD POWEROFF without the terminating NUL", b"CMD POWEROFF", 0, [b"RSP POWEROFF 0\0"]),
        ("CMD RXTUNE 941600 without the terminating NUL", b"CMD RXTUNE 941600", 0, [b"RSP RXTUNE 0 941600\0"]),
        ("handler raises ValueError", b"CMD RXTUNE abc\0", "raise", "negative"),
        ("datagram that is not text", b"\xff\xfe\x00", 0, []),
        ("datagram without the CMD signature", b"XYZ 1\0", 0, []),
    ]
    n = 0
    for title, data, rc, want in scen:
        sent = []

        def parse(args, rc=rc):
            if rc == "raise":
                raise Raised("ValueError")
            return rc
        env0 = {}
        for c_ in reversed(repo.mro(ci)):
            i_ = c_.methods.get("__init__")
            if i_ is None:
                continue
            for st_ in ast.walk(i_):
                # constant initial values of the interface object (flags, counters, "last seen" memories)
                if isinstance(st_, ast.Assign) and len(st_.targets) == 1 and canon(st_.targets[0]).startswith("self.") \
                        and isinstance(st_.value, ast.Constant):
                    env0[canon(st_.targets[0])] = st_.value.value
                elif isinstance(st_, ast.Assign) and len(st_.targets) == 1 and canon(st_.targets[0]).startswith("self.") \
                        and isinstance(st_.value, ast.Call) and canon(st_.value.func) in ("bytearray", "memoryview", "bytes", "list", "dict", "set"):
                    # preallocated buffers / views over them (evaluated in order: a view is a view of THAT buffer)
                    try:
                        env0[canon(st_.targets[0])] = Ev(repo, ci.mod, env=dict(env0), self_cls=ci).ev(st_.value)
                    except (Unknown, Raised):
                        pass
        env0.update({"self.rsp_delay_ms": 0, "self.remote_addr": "10.0.0.9", "self.remote_port": 5555})
        e = Ev(repo, ci.mod, env=env0, self_cls=ci)
        e.ignore_calls = ("log.", "logging.")
        e.hooks = {"self.sock.recvfrom": lambda a, data=data: (data, PEER), "self.parse_cmd": parse,
                   "self.sock.recvfrom_into": (lambda a, data=data: _recv_into(a, data, PEER)),
                   "self.sock.sendto": lambda a: sent.append(tuple(a)), "time.sleep": lambda a: None,
                   "self.desc_link": lambda a: "L:0.0.0.0:5701 -> R:10.0.0.9:5555"}
        try:
            e.run_block(fd.body)
        except Unknown:
            return False
        except Raised as ex:
            sent = "raises %s" % ex.cls
        got = sent
        if isinstance(sent, list):
            got = [x[0] if isinstance(x[0], (bytes, bytearray)) else (x[0].encode() if isinstance(x[0], str) else x[0]) for x in sent]
            got = [bytes(x) if isinstance(x, bytearray) else x for x in got]
        n += 1
        if want == "negative":
            ok = isinstance(got, list) and len(got) == 1 and isinstance(got[0], bytes) and \
                re.fullmatch(rb"RSP RXTUNE -\d+ abc\x00", got[0]) is not None
            L.ob("C05.R1", FC, fn, "%s: exactly one reply, with a negative status and the original arguments" % title,
                 "RSP RXTUNE -<n> abc\\0", repr(got), ok, fd.lineno)
        else:
            nsent = len(got) if isinstance(got, list) else got
            L.ob("C05.R1", FC, fn, "%s: number of datagrams sent in reply" % title, len(want), nsent, nsent == len(want), fd.lineno)
            if nsent == len(want):
                L.ob("C05.R2", FC, fn, "%s: reply text" % title, repr(want), repr(got), got == want, fd.lineno)
        if isinstance(sent, list):
            for x in sent:
                L.ob("C05.R2", FC, fn, "%s: the reply goes to the sender's address" % title, PEER,
                     x[1] if len(x) > 1 else None, len(x) > 1 and tuple(x[1]) == PEER, fd.lineno)
    # 'for EVERY control datagram ... exactly one reply', with status and effects of the command: a datagram that repeats
    # the previous one is a command like any other (the handler decides again - POWERON of a running transceiver is refused
    # the second time), and every reply goes to the sender of ITS datagram.  One interface object, three datagrams.
    seq = [(b"CMD POWERON\0", ("10.0.0.1", 5555), 0, b"RSP POWERON 0\0"),
           (b"CMD POWERON\0", ("10.0.0.1", 5555), -1, b"RSP POWERON -1\0"),
           (b"CMD POWERON\0", ("10.0.0.2", 6666), 0, b"RSP POWERON 0\0")]
    cur = [0]
    sent, handled = [], []
    e = Ev(repo, ci.mod, env=dict(env0), self_cls=ci)
    e.ignore_calls = ("log.", "logging.")

    def parse2(args):
        handled.append(cur[0])
        return seq[cur[0]][2]
    e.hooks = {"self.sock.recvfrom": lambda a: (seq[cur[0]][0], seq[cur[0]][1]), "self.parse_cmd": parse2,
               "self.sock.recvfrom_into": (lambda a: _recv_into(a, seq[cur[0]][0], seq[cur[0]][1])),
               "self.sock.sendto": lambda a: sent.append((cur[0],) + tuple(a)), "time.sleep": lambda a: None,
               "self.desc_link": lambda a: "L:0.0.0.0:5701 -> R:10.0.0.9:5555"}
    try:
        for i in range(len(seq)):
            cur[0] = i
            e.run_block(fd.body)
    except Unknown:
        return True         # (the single-datagram scenarios folded; the sequence adds nothing when it does not)
    except Raised as ex:
        L.ob("C05.R1", FC, fn, "three POWERON datagrams in a row on one interface: each is handled", "no exception", "raises %s" % ex.cls, False, fd.lineno)
        return True
    norm = lambda x: bytes(x) if isinstance(x, (bytes, bytearray)) else (x.encode() if isinstance(x, str) else x)
    got = [(i, norm(d), tuple(peer) if isinstance(peer, (tuple, list)) else peer) for (i, d, peer) in [t[:3] for t in sent if len(t) >= 3]]
    want = [(i, rsp, peer) for i, (_d, peer, _rc, rsp) in enumerate(seq)]
    L.require("C05.R1", FC, fn, "three identical POWERON datagrams in a row (second one refused by the handler, third from another peer): "
              "each is handed to the command handler and answered once, with its own status, to its own sender", (list(range(len(seq))), want), (handled, got), line=fd.lineno)
    return True


def r1_one_reply(L, repo, force_shape=False):
    if force_shape:
        folded = False
    else:
        folded = fold_replies(L, repo)
        L.extra["c05_receive_path_folded"] = bool(folded)
    ci, fd = repo.need_method("ctrl_if", "CTRLInterface", "handle_rx")
    fn = "CTRLInterface.handle_rx"
    L.unit(FC)
    L.fn(FC, fn)
    # names bound by recvfrom
    recv = [n for n in ast.walk(fd) if isinstance(n, ast.Assign) and isinstance(n.value, ast.Call)
            and canon(n.value.func).endswith(".recvfrom")]
    if folded and (len(recv) != 1 or not isinstance(recv[0].targets[0], ast.Tuple)):
        # the datagram is read another way (recvfrom_into a preallocated buffer, a helper): number, text and destination of
        # the replies are decided by the fold; the branch table of this shape is not applicable
        L.extra.setdefault("structural_proofs", {})["C05.R1 branch table of handle_rx (recvfrom form)"] = {
            "obligations": 0, "closed": False, "open": ["the datagram is not bound by a `data, remote = ...recvfrom(n)` statement"]}
        return None
    L.require("C05.R1", FC, fn, "number of recvfrom() calls", 1, len(recv))
    if len(recv) != 1 or not isinstance(recv[0].targets[0], ast.Tuple):
        raise AnalysisError("handle_rx: recvfrom shape unclassifiable")
    DATA, REMOTE = [canon(e) for e in recv[0].targets[0].elts]
    L.require("C05.R1", FC, fn, "datagram is read from the interface's own socket", "self.sock.recvfrom",
              canon(recv[0].value.func))
    # stores to `remote` other than recvfrom
    st = [n for n in ast.walk(fd) if isinstance(n, ast.Name) and n.id == REMOTE and isinstance(n.ctx, ast.Store)]
    L.require("C05.R1", FC, fn, "reply address is only bound by recvfrom", 1, len(st))

    defs = {}
    for n in ast.walk(fd):
        if isinstance(n, ast.Assign) and len(n.targets) == 1 and isinstance(n.targets[0], ast.Name):
            defs.setdefault(n.targets[0].id, []).append(canon(n.value))

    def ev(st):
        if isinstance(st, ast.Return):
            return ("ret",)
        if isinstance(st, ast.Expr) and isinstance(st.value, ast.Call):
            t = canon(st.value)
            if t.startswith("log."):
                return None
            if ".send_response(" in t or ".sendto(" in t or ".send(" in t:
                return ("send", t)
            return ("call", t)
        if isinstance(st, ast.Assign):
            return None
        if isinstance(st, ast.Expr) and isinstance(st.value, ast.Constant):
            return None
        return ("other", canon(st)[:40])
    W = Walker(ev)
    atoms, rows = W.table(fd.body)
    ver = [a for a in atoms if a.startswith("self.verify_req(")]
    tup = [a for a in atoms if "tuple" in a and "type(" in a]
    exc = [a for a in atoms if a.startswith("raises: ")]
    other = [a for a in atoms if a not in ver + tup + exc]
    if folded:
        # content and destination of the replies are decided by the fold; the table below only counts replies per
        # branch valuation (complete case analysis), whatever additional conditions the code tests
        if len(ver) != 1:
            return DATA, REMOTE
        decode_x = [x for x in exc if ".decode(" in x]

        def rows_check():
            n = 0
            for vals, evs in sorted(rows.items(), key=lambda kv: repr(kv[0])):
                a = dict(zip(atoms, vals))
                sends = [e for e in evs if e[0] == "send"]
                want = 0 if (any(a[x] for x in decode_x) or not a[ver[0]]) else 1
                n += 1
                L.ob("C05.R1", FC, fn, "replies sent when %s" % ", ".join(
                    "%s=%d" % (k[:40], v) for k, v in sorted(a.items())), want, [s_[1] for s_ in sends],
                    len(sends) == want)
            L.floor("C05.R1", "rows of the receive-path table", n, 4)
        if other:
            # additional conditions (correlated with the signature test in ways a boolean table cannot know): the
            # table is the structural record, the fold has decided
            L.structural("C05.R1 reply count per valuation of the receive path's conditions", rows_check)
        else:
            rows_check()
        return DATA, REMOTE
    if other:
        raise AnalysisError("handle_rx tests conditions the reply-count table does not know (%s) and the receive path does not fold" % ", ".join(other)[:120])
    L.require("C05.R1", FC, fn, "atoms of the receive path (signature test, tuple test, exception oracles)",
              (1, 1, []), (len(ver), len(tup), other))
    if len(ver) != 1 or len(tup) != 1 or other:
        return None
    RC = re.search(r"type\((\w+)\)", tup[0]).group(1)
    REQ = None
    for k, v in defs.items():
        if any(x.startswith("self.prepare_req(") for x in v):
            REQ = k
    if REQ is None:
        raise AnalysisError("handle_rx: request not derived from prepare_req()")
    n = 0
    parse_exc = [x for x in exc if ".parse_cmd(" in x]
    for vals, evs in sorted(rows.items(), key=lambda kv: repr(kv[0])):
        a = dict(zip(atoms, vals))
        sends = [e for e in evs if e[0] == "send"]
        decode_fail = any(a[x] for x in exc if ".decode(" in x)
        failed = any(a[x] for x in parse_exc)
        if failed and a[tup[0]]:
            continue        # infeasible: the error status set by the handler is not a tuple
        if decode_fail:
            # undecodable datagram: must be ignored (no reply possible / demanded)
            want = 0
        elif not a[ver[0]]:
            want = 0
        else:
            want = 1
        n += 1
        L.ob("C05.R1", FC, fn, "replies sent when %s" % ", ".join(
            "%s=%d" % (k[:40], v) for k, v in sorted(a.items())), want, [s[1] for s in sends],
            len(sends) == want)
        if want == 1 and len(sends) == 1:
            try:
                call = ast.parse(sends[0][1], mode="eval").body
                args = [canon(x) for x in call.args] + ["%s=%s" % (k.arg, canon(k.value)) for k in call.keywords]
            except SyntaxError:
                args = []
            rest = [x for x in args[2:] if x not in ("None", "params=None")]
            if failed:
                okform = args[:2] == [REQ, REMOTE] and len(rest) == 1 and re.fullmatch(r"-\d+", rest[0]) is not None
                wanttxt = "send_response(%s, %s, <negative error status>)" % (REQ, REMOTE)
            elif a[tup[0]]:
                okform = args[:2] == [REQ, REMOTE] and args[2:] == ["%s[0]" % RC, "%s[1]" % RC]
                wanttxt = "send_response(%s, %s, %s[0], %s[1])" % (REQ, REMOTE, RC, RC)
            else:
                okform = args[:2] == [REQ, REMOTE] and rest == [RC]
                wanttxt = "send_response(%s, %s, %s)" % (REQ, REMOTE, RC)
            L.ob("C05.R1", FC, fn, "reply carries (request, sender address, status[, results]) [tuple=%d, handler error=%d]" % (a[tup[0]], failed),
                 wanttxt, sends[0][1], okform)
    L.floor("C05.R1", "rows of the receive-path table", n, 4)
    # rc comes from parse_cmd(request), or an error status from an exception handler
    rcdefs = defs.get(RC, [])
    ok = any(d == "self.parse_cmd(%s)" % REQ for d in rcdefs) and all(
        d == "self.parse_cmd(%s)" % REQ or re.fullmatch(r"-\d+", d) for d in rcdefs)
    L.ob("C05.R1", FC, fn, "status is what parse_cmd(request) returned (or an error status set by a handler)",
         "self.parse_cmd(%s)" % REQ, rcdefs, ok)
    return DATA, REMOTE


def r2_format(L, repo, force_shape=False):
    spec = json.load(open(os.path.join(VERIF, "spec", "trxc.json")))
    ci, fd = repo.need_method("ctrl_if", "CTRLInterface", "send_response")
    fn = "CTRLInterface.send_response"
    L.fn(FC, fn)
    ps = params(fd)
    if len(ps) != 5:
        raise AnalysisError("send_response signature changed")
    _, REQ, REMOTE, CODE, PAR = ps
    cfg = CFG(fd)
    folded = bool(L.extra.get("c05_receive_path_folded")) and not force_shape
    ins = [c for c in find_calls(fd, attr="insert") if canon(c.func.value) == REQ]
    if not folded:
        # shape-based fallback (the reply text is otherwise decided by the fold in R1)
        L.require("C05.R2", FC, fn, "status inserted right after the verb", ["%s.insert(1, str(%s))" % (REQ, CODE)],
                  [canon(c) for c in ins])
        for c in ins:
            L.require("C05.R2", FC, fn, "status insertion is unconditional", [], lit_fmt(guard_literals(cfg, cfg.node_of(c))))
        app = [n for n in ast.walk(fd) if (isinstance(n, ast.AugAssign) and canon(n.target) == REQ) or
               (isinstance(n, ast.Call) and canon(n.func) == REQ + ".extend")]
        L.require("C05.R2", FC, fn, "result parameters appended", 1, len(app))
        for n in app:
            val = canon(n.value) if isinstance(n, ast.AugAssign) else canon(n.args[0])
            lits = guard_literals(cfg, cfg.node_of(n))
            L.require("C05.R2", FC, fn, "optional results are appended iff given",
                      (PAR, lit_fmt({("None is " + PAR, False)})), (val, lit_fmt(lits)))
    sends = [c for c in calls_in(fd) if canon(c.func) in ("self.sendto", "self.sock.sendto")]
    L.require("C05.R2", FC, fn, "number of datagrams sent per response", 1, len(sends))
    subst = deep_subst(fd)
    for c in sends:
        L.require("C05.R2", FC, fn, "reply goes to the requester's address", REMOTE,
                  canon(c.args[1]) if len(c.args) > 1 else None, line=c.lineno)
        # sendto is reached on every path (the optional delay must not skip it)
        L.ob("C05.R2", FC, fn, "the datagram is sent on every path through send_response", "post-dominates entry",
             "skippable" if not cfg.must_pass(cfg.entry, [cfg.node_of(c)]) else "always",
             cfg.must_pass(cfg.entry, [cfg.node_of(c)]), c.lineno)
        if folded:
            continue
        payload = c.args[0]
        if isinstance(payload, ast.Name) and payload.id in subst:
            payload = subst[payload.id]
        want = (spec["signature_rsp"] + "{}" + spec["terminator"], ["' '.join(%s)" % REQ])
        L.require("C05.R2", FC, fn, "reply text is 'RSP ' + space-joined fields + NUL", want, fmt_norm(payload), line=c.lineno)
        # insert precedes join
        L.ob("C05.R2", FC, fn, "status is inserted before the reply text is built", "insert dominates send",
             "", bool(ins) and cfg.dominates(cfg.node_of(ins[0]), cfg.node_of(c)))
    if not folded:
        ci, vr = repo.need_method("ctrl_if", "CTRLInterface", "verify_req")
        r = [canon(n.value) for n in ast.walk(vr) if isinstance(n, ast.Return)]
        P = params(vr)[1]
        L.require("C05.R2", FC, "CTRLInterface.verify_req", "a request is recognised by the CMD signature",
                  ["%s.startswith(%r)" % (P, spec["signature_cmd"])], r)
        ci, pr = repo.need_method("ctrl_if", "CTRLInterface", "prepare_req")
        P = params(pr)[1]
        txt = [canon(s) for s in pr.body if not (isinstance(s, ast.Expr) and isinstance(s.value, ast.Constant))]
        want = ["request = %s[4:].strip().strip('\\x00')" % P, "request = request.split(' ')", "return request"]
        L.require("C05.R2", FC, "CTRLInterface.prepare_req", "signature (4 characters), padding and NUL stripped, split on spaces",
                  want, txt)
    ci, vc = repo.need_method("ctrl_if", "CTRLInterface", "verify_cmd")
    ps = params(vc)
    # (further parameters are options of later callers: they are folded at their defaults, as every pinned call site leaves them)
    n_dflt = len(vc.args.defaults)
    extra_ = ps[5:]
    if len(ps) < 5 or len(extra_) > max(0, n_dflt - 1):
        raise AnalysisError("verify_cmd signature changed")
    _, RQ, CMD, ARGC, VA = ps[:5]
    dflt_env = {}
    for p_, d_ in zip(ps[len(ps) - n_dflt:], vc.args.defaults):
        if p_ in extra_:
            try:
                dflt_env[p_] = Ev(repo, repo.mod("ctrl_if"), self_cls=ci).ev(d_)
            except (Unknown, Raised):
                raise AnalysisError("verify_cmd: default of %s does not fold" % p_)
    # comparison-only code over (verb equal?, number of arguments, argc, va): folded exhaustively
    # over request lengths 1..8, argc 0..7, both verbs, both va values
    mod = repo.mod("ctrl_if")
    bad = []
    n = 0
    for verb_ok in (True, False):
        for nargs in range(0, 8):
            for argc in range(0, 8):
                for va in (False, True):
                    req = ["VERB" if verb_ok else "OTHER"] + ["1"] * nargs
                    env = dict(dflt_env)
                    env.update({RQ: req, CMD: "VERB", ARGC: argc, VA: va})
                    try:
                        r = Ev(repo, mod, env=env, self_cls=ci).run_block(vc.body)
                    except (Unknown, Raised) as ex:
                        raise AnalysisError("verify_cmd does not fold: %s" % ex)
                    got = None if not isinstance(r, tuple) else r[1]
                    want = verb_ok and (nargs >= argc if va else nargs == argc)
                    n += 1
                    if got is not want and got != want:
                        bad.append({"verb_matches": verb_ok, "arguments": nargs, "argc": argc, "va": va, "returned": got})
    L.ob("C05.R2", FC, "CTRLInterface.verify_cmd",
         "verify_cmd() is True iff the verb matches and the argument count equals argc (at least argc when va) -- folded over %d cases" % n,
         [], bad[:4], not bad)


def ret_kind(v):
    if v is None:
        return "none"
    if isinstance(v, ast.Constant):
        if v.value is None:
            return "none"
        if isinstance(v.value, int):
            return "int"
    if isinstance(v, ast.UnaryOp) and isinstance(v.op, ast.USub) and isinstance(v.operand, ast.Constant):
        return "int"
    if isinstance(v, ast.Tuple) and len(v.elts) == 2 and ret_kind(v.elts[0]) == "int" and \
            isinstance(v.elts[1], (ast.List, ast.ListComp)):
        return "tuple"
    if isinstance(v, ast.Name):
        return "name:" + v.id
    return "other:" + canon(v)[:30]


def ret_kind_r(v, repo, ci, depth=0):
    """ret_kind, following `self.helper(...)`: the kind of what the helper returns (join over its returns)"""
    k = ret_kind(v)
    if not k.startswith("other:") or depth > 3 or ci is None:
        return k
    if isinstance(v, ast.Call) and isinstance(v.func, ast.Attribute) and isinstance(v.func.value, ast.Name) \
            and v.func.value.id == "self":
        c2, m2 = repo.find_method(ci, v.func.attr)
        if m2 is None:
            return k
        rets, implicit = returns(CFG(m2))
        kinds = {ret_kind_r(val, repo, ci, depth + 1) for _, val in rets}
        if implicit:
            kinds.add("none")
        if kinds and kinds <= {"int"}:
            return "int"
        if kinds and kinds <= {"int", "tuple"}:
            return "tuple" if "tuple" in kinds else "int"
        if kinds and kinds <= {"none"}:
            return "none"
        return "mixed:" + ",".join(sorted(kinds))[:40]
    return k


def r3_dispatch_returns(L, repo):
    """R3: every command gets a status. Control-flow part: no path of either dispatcher falls off its end. Value part,
    decided by folding both dispatchers for every documented command form (and an unknown verb): the common handler
    answers an int or (int, [str, ...]); the transceiver-specific handler an int or None (= not handled here); its
    non-None answer takes precedence and suppresses the common handler's effect; unknown verbs are acknowledged with 0."""
    from cmdfold import fold_parse_cmd, fold_fake_cmd
    spec = json.load(open(os.path.join(VERIF, "spec", "trxc.json")))
    ci, pc = repo.need_method("ctrl_if_trx", "CTRLInterfaceTRX", "parse_cmd")
    L.unit(FT)
    fn = "CTRLInterfaceTRX.parse_cmd"
    L.fn(FT, fn)
    cfg = CFG(pc)
    rets, implicit = returns(cfg)
    L.require("C05.R3", FT, fn, "paths falling off the end without a status", 0, len(implicit),
              line=implicit[0].line if implicit else None)
    ci2, ch = repo.need_method("fake_trx", "FakeTRX", "ctrl_cmd_handler")
    L.unit(FF)
    fn2 = "FakeTRX.ctrl_cmd_handler"
    L.fn(FF, fn2)
    rets2, implicit2 = returns(CFG(ch))
    L.require("C05.R3", FF, fn2, "paths falling off the end (would be 'unhandled' by accident)", 0, len(implicit2))

    def status_kind(v):
        if isinstance(v, bool):
            return "bool"
        if isinstance(v, int):
            return "int"
        if isinstance(v, tuple) and len(v) == 2 and isinstance(v[0], int) and not isinstance(v[0], bool) \
                and isinstance(v[1], list) and all(isinstance(x, str) for x in v[1]):
            return "tuple"
        if v is None:
            return "none"
        return "other: %r" % (v,)
    n = 0
    forms = []
    for verb, e in sorted(spec["verbs"].items()):
        for argc in e.get("argc", []) + ([e["min"], e["min"] + 2] if e.get("min") is not None else []):
            forms.append([verb] + ["1"] * argc)
    forms.append(["NO_SUCH_VERB", "1"])
    for req in forms:
        f = fold_fake_cmd(repo, req)
        k = status_kind(f.ret) if f.raised is None else "raises %s" % f.raised
        n += 1
        L.ob("C05.R3", FF, fn2, "CMD %s: the transceiver-specific handler answers a status or None (not handled here)" % " ".join(req),
             "int | None", k, k in ("int", "none"), ch.lineno)
        if f.raised is None and f.ret is None:
            g = fold_parse_cmd(repo, req)
            k = status_kind(g.ret) if g.raised is None else "raises %s" % g.raised
            L.ob("C05.R3", FT, fn, "CMD %s: the common handler answers a status (int) or (status, [results])" % " ".join(req),
                 "int | (int, [str])", k, k in ("int", "tuple"), pc.lineno)
    L.floor("C05.R3", "command forms folded through both dispatchers", n, 18)
    g = fold_parse_cmd(repo, ["NO_SUCH_VERB", "1"])
    L.require("C05.R3", FT, fn, "unknown verbs are acknowledged with status 0 and have no effect", (0, []), (g.ret, g.calls))
    # precedence of the transceiver-specific handler
    for req in (["POWEROFF"], ["RXTUNE", "1"], ["SETFH", "1", "0", "10", "20"], ["NO_SUCH_VERB"]):
        base = fold_parse_cmd(repo, ["NO_SUCH_VERB"])
        g = fold_parse_cmd(repo, req, custom=-7)
        L.ob("C05.R3", FT, fn, "CMD %s: a status from the transceiver-specific handler is final (the common handler does nothing)" % " ".join(req),
             (-7, "no effect"), (g.ret, "no effect" if (not g.calls and g.stores() == base.stores()) else g.calls or "stores"),
             g.ret == -7 and not g.calls and g.stores() == base.stores(), pc.lineno)


def verify_sites(fd):
    out = []
    for c in calls_in(fd):
        if isinstance(c.func, ast.Attribute) and c.func.attr == "verify_cmd":
            if len(c.args) < 3:
                raise AnalysisError("verify_cmd call shape")
            verb = c.args[1].value if isinstance(c.args[1], ast.Constant) else None
            argc = c.args[2].value if isinstance(c.args[2], ast.Constant) else None
            va = False
            for k in c.keywords:
                if k.arg == "va":
                    va = bool(getattr(k.value, "value", None))
            if len(c.args) > 3:
                va = bool(getattr(c.args[3], "value", None))
            out.append((verb, argc, va, c))
    return out


def r4_verb_table(L, repo, tier):
    """R4: which commands the transceiver recognises. Decided by folding both handlers (transceiver-specific first,
    then the common one) for every candidate verb and 0..8 arguments: a form is recognised when it has an effect, a
    result or a status other than the unknown-verb acknowledgement. Falls back to the verify_cmd call-site scan when
    the handlers do not fold."""
    spec = json.load(open(os.path.join(VERIF, "spec", "trxc.json")))
    try:
        got = _verb_table_fold(L, repo, spec)
        L.structural("C05.R4 verb/arity table read off the verify_cmd call sites", _verb_table_sites, L, repo, tier, spec)
        return got
    except AnalysisError as e:
        L.extra["c05_r4_fold"] = "not folded: %s" % str(e)[:120]
    return _verb_table_sites(L, repo, tier, spec)


def _verb_table_fold(L, repo, spec):
    from cmdfold import accepted_forms
    cands = set(spec["verbs"])
    for modn in ("ctrl_if_trx", "fake_trx"):
        m = repo.mod(modn)
        L.unit(m.rel)
        for n in ast.walk(m.tree):
            if isinstance(n, ast.Constant) and isinstance(n.value, str) and re.fullmatch(r"[A-Z][A-Z0-9_]{2,20}", n.value):
                cands.add(n.value)
    MAXA = 8
    got = {}
    for verb in sorted(cands):
        ok, problems = accepted_forms(repo, verb, MAXA)
        for argc, why in sorted(problems.items()):
            L.ob("C05.R4", FT, "verb table", "CMD %s with %d argument(s): the handler reads only arguments its arity guarantees" % (verb, argc),
                 "no IndexError", why, False)
        if not ok:
            continue
        d = {}
        lo = min(ok)
        if ok == set(range(lo, MAXA + 1)) and MAXA in ok and len(ok) > 2:
            d["min"] = lo
        else:
            d["argc"] = sorted(ok)
        got[verb] = d
    L.floor("C05.R4", "TRXC verbs recognised by folding the handlers", len(got), 14)
    for verb in sorted(set(got) | set(spec["verbs"])):
        if verb not in spec["verbs"]:
            L.ob("C05.R4", FT, "verb table", "additional TRXC verb %s (not in the documented set)" % verb,
                 "recorded", got.get(verb), True)
            continue
        L.require("C05.R4", FT, "verb table", "TRXC verb %s: accepted argument counts" % verb,
                  spec["verbs"].get(verb), got.get(verb))
    return got


def _verb_table_sites(L, repo, tier, spec):
    table = {}
    nsites = 0
    for modn, cls, meth, F in (("ctrl_if_trx", "CTRLInterfaceTRX", "parse_cmd", FT),
                               ("fake_trx", "FakeTRX", "ctrl_cmd_handler", FF)):
        ci, fd = repo.need_method(modn, cls, meth)
        REQ = params(fd)[1]
        for verb, argc, va, c in verify_sites(fd):
            nsites += 1
            if verb is None or argc is None:
                raise AnalysisError("verify_cmd with non-literal verb/argc at %s:%d" % (F, c.lineno))
            L.require("C05.R4", F, cls + "." + meth, "verify_cmd(%s/%d) examines the received request" % (verb, argc),
                      REQ, canon(c.args[0]), line=c.lineno)
            e = table.setdefault(verb, {"argc": set(), "min": None})
            if va:
                e["min"] = argc if e["min"] is None else min(e["min"], argc)
            else:
                e["argc"].add(argc)
    L.floor("C05.R4", "verify_cmd call sites", nsites, 18)
    got = {}
    for v, e in table.items():
        d = {}
        if e["argc"]:
            d["argc"] = sorted(e["argc"])
        if e["min"] is not None:
            d["min"] = e["min"]
        got[v] = d
    for verb in sorted(set(got) | set(spec["verbs"])):
        if verb not in spec["verbs"]:
            # a verb added to the transceiver is outside the documented set the property lists; it is
            # recorded, not judged (the documented verbs must keep their arities)
            L.ob("C05.R4", FT, "verb table", "additional TRXC verb %s (not in the documented set)" % verb,
                 "recorded", got.get(verb), True)
            continue
        L.require("C05.R4", FT, "verb table", "TRXC verb %s: accepted argument counts" % verb,
                  spec["verbs"].get(verb), got.get(verb))
    # a verb's handler uses only arguments its arity guarantees
    for modn, cls, meth, F in (("ctrl_if_trx", "CTRLInterfaceTRX", "parse_cmd", FT),
                               ("fake_trx", "FakeTRX", "ctrl_cmd_handler", FF)):
        ci, fd = repo.need_method(modn, cls, meth)
        REQ = params(fd)[1]
        for n in ast.walk(fd):
            if not isinstance(n, ast.If):
                continue
            vs = [(verb, argc, va) for verb, argc, va, c in verify_sites(ast.Expression(n.test))]
            if len(vs) != 1:
                continue
            verb, argc, va = vs[0]
            for st in n.body:
                for s in ast.walk(st):
                    if isinstance(s, ast.Subscript) and canon(s.value) == REQ and isinstance(s.slice, ast.Constant):
                        i = s.slice.value
                        L.ob("C05.R4", F, cls + "." + meth, "%s/%d handler reads request[%d]" % (verb, argc, i),
                             "index <= %d" % argc, i, isinstance(i, int) and 0 <= i <= argc, s.lineno)
    return got


def r11_measure_result(L):
    """R11 (the replies to the commands trxcon emits are accepted by trxcon's response parser - MEASURE): in
    trx_if_measure_rsp_cb() the measurement is handed on (trxcon_phyif_handle_rsp) for EVERY channel number the frequency
    conversion can return for a valid frequency; only the converter's "no such channel" value 0xffff is refused.  The
    conditions that dominate the hand-over are folded with the channel number over its valid range boundaries (0 is a
    valid E-GSM channel) and with the refusal value."""
    from cfront import TU, CCFG, kids, kind, walk, ctext, calls_to, fold_env
    tu = TU(L.repo, "trxcon", "src/trx_if.c", L=L)
    FCc = tu.rel
    f = tu.func("trx_if_measure_rsp_cb")
    L.fn(FCc, "trx_if_measure_rsp_cb")
    outs = calls_to(f, "trxcon_phyif_handle_rsp")
    L.floor("C05.R11", "hand-over of the MEASURE result to the PHY interface", len(outs), 1)
    # the variable that receives the converted channel number
    var = None
    for n in walk(tu.body(f)):
        if kind(n) == "BinaryOperator" and n.get("opcode") == "=" and "gsm_freq102arfcn" in ctext(kids(n)[1]):
            var = ctext(kids(n)[0])
        if kind(n) == "VarDecl" and kids(n) and "gsm_freq102arfcn" in ctext(kids(n)[-1]):
            var = n.get("name")
    if var is None:
        raise AnalysisError("trx_if_measure_rsp_cb: the converted channel number is not bound to a variable")
    g = CCFG(tu, f)
    valid = [0, 1, 124, 125, 128, 251, 259, 293, 306, 340, 438, 511, 512, 885, 955, 974, 975, 1023, 0x8000 | 512, 0x8000 | 810]
    for c in outs:
        node = g.node_of(c)
        conds = [(cn, lab) for cn, lab in g.guards(node) if cn.kind == "cond" and getattr(cn, "cond", None) is not None
                 and any(kind(x) == "DeclRefExpr" and ctext(x) == var for x in walk(cn.cond))]
        bad = []
        for v in valid:
            for cn, lab in conds:
                r = fold_env(tu, cn.cond, {var: v})
                if r is not None and bool(r) != bool(lab):
                    bad.append("%s = %d is refused by `%s`" % (var, v, ctext(cn.cond)[:50]))
        L.ob("C05.R11", FCc, "trx_if_measure_rsp_cb", "every valid channel number (0 included) reaches trxcon_phyif_handle_rsp()",
             "no refusal among %d boundary channel numbers" % len(valid), sorted(set(bad))[:4], not bad, tu.line(c))
        refused = any((lambda r: r is not None and bool(r) != bool(lab))(fold_env(tu, cn.cond, {var: 0xffff})) for cn, lab in conds)
        L.ob("C05.R11", FCc, "trx_if_measure_rsp_cb", "the converter's failure value 0xffff does not reach trxcon_phyif_handle_rsp()",
             "refused", "refused" if refused else "handed on", refused, tu.line(c))


def r4_trxcon_sibling(L, repo, got):
    from cfront import TU, kids, kind, strip, calls_to, call_args, ctext, walk, array_extent
    tu = TU(L.repo, "trxcon", "src/trx_if.c", L=L)
    FCc = tu.rel
    n = 0
    seen = {}
    for fname, f in tu.functions.items():
        if not any(kind(c) == "CompoundStmt" for c in kids(f)):
            continue
        for c in calls_to(f, "trx_ctrl_cmd"):
            a = call_args(c)
            if len(a) < 4:
                raise AnalysisError("trx_ctrl_cmd call shape")
            fmt = strip(a[3]).get("value", "").strip('"')
            convs = re.findall(r"%[-0-9.l]*([duxs])", fmt)
            va = strip(a[2], casts=True)
            if kind(va) == "StringLiteral":
                verbs = [va.get("value", "").strip('"')]
            elif kind(va) == "DeclRefExpr":
                # the verb is a parameter of a shared helper: take the literals its callers pass
                pnames = [p_.get("name") for p_ in kids(f) if kind(p_) == "ParmVarDecl"]
                if ctext(va) not in pnames:
                    raise AnalysisError("trx_ctrl_cmd: verb argument `%s` in %s() is neither a literal nor a parameter" % (ctext(va), fname))
                pi = pnames.index(ctext(va))
                verbs = []
                for f2n, f2 in tu.functions.items():
                    if not any(kind(c2) == "CompoundStmt" for c2 in kids(f2)):
                        continue
                    for c2 in calls_to(f2, fname):
                        a2 = call_args(c2)
                        v2 = strip(a2[pi], casts=True) if pi < len(a2) else None
                        if v2 is None or kind(v2) != "StringLiteral":
                            raise AnalysisError("trx_ctrl_cmd: verb passed to %s() by %s() is not a literal" % (fname, f2n))
                        verbs.append(v2.get("value", "").strip('"'))
                if not verbs:
                    raise AnalysisError("trx_ctrl_cmd: helper %s() has no caller" % fname)
            elif kind(va) == "ArraySubscriptExpr" and kind(strip(kids(va)[0], casts=True)) == "DeclRefExpr":
                # the verb is taken from a constant table of verbs: every entry of the table may be emitted
                tname = ctext(strip(kids(va)[0], casts=True))
                decl = [d_ for d_ in walk(tu.body(f)) if kind(d_) == "VarDecl" and d_.get("name") == tname]
                decl += [d_ for d_ in tu.ast.get("inner", []) if kind(d_) == "VarDecl" and d_.get("name") == tname] if hasattr(tu, "ast") else []
                verbs = [x.get("value", "").strip('"') for d_ in decl[:1] for x in walk(d_) if kind(x) == "StringLiteral"]
                if not verbs or not decl or "const" not in decl[0].get("type", {}).get("qualType", ""):
                    raise AnalysisError("trx_ctrl_cmd: verb table `%s` is not a constant table of literals" % tname)
            else:
                raise AnalysisError("trx_ctrl_cmd: verb argument unclassifiable: %s" % ctext(va))
            for verb in verbs:
                n += 1
                seen[verb] = (fmt, len(convs))
                L.fn(FCc, fname)
                e = got.get(verb)
                if e is None:
                    L.ob("C05.R4", FCc, fname, "trxcon emits CMD %s (unknown to the toolkit: acknowledged with 0)" % verb,
                         "unknown verb -> status 0", "unknown", True, tu.line(c))
                    continue
                if "s" in convs:
                    # SETFH: two numbers + a list with at least one pair
                    mn = len(convs) - 1 + 2
                    ok = e.get("min") is not None and e["min"] <= mn
                    L.ob("C05.R4", FCc, fname, "trxcon emits CMD %s with a variable list (>= %d arguments)" % (verb, mn),
                         "toolkit accepts >= %s" % e.get("min"), mn, ok, tu.line(c))
                else:
                    ok = len(convs) in e.get("argc", []) or (e.get("min") is not None and len(convs) >= e["min"])
                    L.ob("C05.R4", FCc, fname, "trxcon emits CMD %s with %d argument(s) `%s`" % (verb, len(convs), fmt),
                         "toolkit accepts %s" % e, len(convs), ok, tu.line(c))
    L.floor("C05.R4", "(call site, verb) pairs of trx_ctrl_cmd in trx_if.c", n, 9)
    # command text: "CMD %s" / "CMD %s " prefix (4 characters before the verb), NUL included in send length
    f = tu.func("trx_ctrl_cmd")
    fmts = []
    for c in calls_to(f, "snprintf"):
        a = call_args(c)
        fmts.append(strip(a[2]).get("value", "").strip('"'))
    L.require("C05.R4", FCc, "trx_ctrl_cmd", "command text starts with the 4-character CMD signature",
              ["CMD %s", "CMD %s "], sorted(fmts))
    # R6: buffer sizes
    spec = json.load(open(os.path.join(VERIF, "spec", "trxc.json")))
    ext = None
    for fld, qt in tu.record_fields("trx_ctrl_msg"):
        if fld == "cmd":
            ext = array_extent(qt)
    L.require("C05.R6", FCc, "struct trx_ctrl_msg", "trxcon's command buffer (TRXC_BUF_SIZE)", spec["trxcon_buf_size"], ext)
    ci, hr = repo.need_method("ctrl_if", "CTRLInterface", "handle_rx")
    rc = [c for c in calls_in(hr) if canon(c.func).endswith(".recvfrom")]
    mod = repo.mod("ctrl_if")
    for c in rc:
        try:
            size = Ev(repo, mod, self_cls=ci).ev(c.args[0])
        except (Unknown, Raised):
            raise AnalysisError("recvfrom size does not fold")
        L.ob("C05.R6", FC, "CTRLInterface.handle_rx",
             "control socket receive size covers the longest command trxcon can emit (SETFH with up to 64 channels)",
             ">= %s" % ext, size, isinstance(size, int) and ext is not None and size >= ext, c.lineno)
    # response matcher offsets: strncmp(buf + 4, tcm->cmd + 4, rsp_len)
    f = tu.func("trx_ctrl_read_cb")
    offs = []
    for c in calls_to(f, "strncmp"):
        a = [ctext(x) for x in call_args(c)]
        offs.append(tuple(a[:2]))
    L.ob("C05.R6", FCc, "trx_ctrl_read_cb", "response verb is matched 4 characters into reply and command",
         "('(buf + 4)', '(tcm->cmd + 4)') among strncmp calls", offs, ("(buf + 4)", "(tcm->cmd + 4)") in offs)
    return seen


def r5_effects(L, repo):
    """R5: status and effect of the stateless commands, decided by folding the WHOLE handler (cmdfold) per command:
    SETFORMAT for every request -3..18, MEASURE with/without a measurement interface, RXTUNE/TXTUNE (kHz -> Hz),
    SETPOWER, NOMTXPOWER."""
    from cmdfold import fold_parse_cmd
    ci, pc = repo.need_method("ctrl_if_trx", "CTRLInterfaceTRX", "parse_cmd")
    fn = "CTRLInterfaceTRX.parse_cmd"
    REQ = params(pc)[1]
    dci = repo.need_class("data_if", "DATAInterface")
    dmod = repo.mod("data_if")
    known = list(fold(repo, repo.mod("data_msg"), ast.parse("Msg.KNOWN_VERSIONS", mode="eval").body))
    c1, setm = repo.find_method(dci, "set_hdr_ver")
    c2, pick = repo.find_method(dci, "pick_hdr_ver")
    if setm is None or pick is None:
        raise AnalysisError("set_hdr_ver/pick_hdr_ver vanished")
    for v in range(-3, 19):
        f = fold_parse_cmd(repo, ["SETFORMAT", str(v)], hdr_ver=0)
        got = f.ret if f.raised is None else "raises %s" % f.raised
        if v < 0 or v > 15:
            want = -1
        elif v in known:
            want = v
        else:
            lower = [k for k in known if k <= v]
            want = max(lower) if lower else -1
        applied = [c_[1][0] for c_ in f.calls if c_[0] == "set_hdr_ver"]
        L.require("C05.R5", FT, fn, "SETFORMAT %d answers the applied version / the highest supported lower one / -1 when out of range" % v,
                  want, got, line=pc.lineno)
        L.ob("C05.R5", FT, fn, "SETFORMAT %d: set_hdr_ver() is attempted only for a version inside 0..15" % v,
             [v] if 0 <= v <= 15 else [], applied, applied == ([v] if 0 <= v <= 15 else []), pc.lineno)
        L.require("C05.R5", FT, fn, "SETFORMAT %d: header version in force afterwards" % v, v if v in known else 0,
                  getattr(f, "hdr_ver", None), line=pc.lineno)
    # set_hdr_ver / pick_hdr_ver folded over the declared 4-bit domain
    L.unit(rel("data_if"))
    vmax = fold(repo, repo.mod("data_msg"), ast.parse("Msg.CHDR_VERSION_MAX", mode="eval").body)
    L.require("C05.R5", rel("data_msg"), "Msg", "CHDR_VERSION_MAX is the 4-bit maximum", 15, vmax)
    for v in range(0, 16):
        e = Ev(repo, dmod, env={"self._hdr_ver": 0}, self_cls=dci)      # (an interface starts on version 0)
        e.ignore_calls = ("log.", "logging.")
        try:
            r = e.call_func(setm, dmod, [("self", "<self>"), (params(setm)[1], v)], self_cls=dci)
        except (Unknown, Raised) as ex:
            raise AnalysisError("set_hdr_ver does not fold for %d: %s" % (v, ex))
        L.require("C05.R5", rel("data_if"), "DATAInterface.set_hdr_ver", "set_hdr_ver(%d) applies iff the version is known" % v,
                  v in known, r)
        try:
            r = Ev(repo, dmod, self_cls=dci).call_func(pick, dmod, [("self", "<self>"), (params(pick)[1], v)], self_cls=dci)
        except (Unknown, Raised) as ex:
            raise AnalysisError("pick_hdr_ver does not fold for %d: %s" % (v, ex))
        lower = [k for k in known if k <= v]
        L.require("C05.R5", rel("data_if"), "DATAInterface.pick_hdr_ver",
                  "pick_hdr_ver(%d) suggests the highest supported version not above the request" % v,
                  max(lower) if lower else -1, r)
    st = [n for n in ast.walk(setm) if isinstance(n, ast.Assign) and canon(n.targets[0]) == "self._hdr_ver"]
    L.require("C05.R5", rel("data_if"), "DATAInterface.set_hdr_ver", "applied version is stored",
              [params(setm)[1]], [canon(s.value) for s in st])
    # MEASURE
    f = fold_parse_cmd(repo, ["MEASURE", "941600"], {"pwr_meas": None})
    L.require("C05.R5", FT, fn, "MEASURE without a power-measurement interface answers -1", (-1, []),
              (f.ret, [c_ for c_ in f.calls if c_[0] == "measure"]))
    f = fold_parse_cmd(repo, ["MEASURE", "941600"])
    L.require("C05.R5", FT, fn, "MEASURE <kHz> measures at kHz x 1000 and answers (0, [dBm as text])",
              ((0, ["-77"]), [("measure", (941600000,), ())]),
              ((f.ret[0], list(f.ret[1])) if isinstance(f.ret, tuple) and len(f.ret) == 2 else f.ret, [c_ for c_ in f.calls if c_[0] == "measure"]))
    # tuning commands store kHz * 1000
    for verb, attr in (("RXTUNE", "_rx_freq"), ("TXTUNE", "_tx_freq")):
        f = fold_parse_cmd(repo, [verb, "935800"])
        L.require("C05.R5", FT, fn, "%s stores the frequency (kHz -> Hz) and answers 0" % verb,
                  (0, 935800000), (f.ret, f.stores().get(attr)))
    f = fold_parse_cmd(repo, ["NOMTXPOWER"], {"tx_power_base": 37, "tx_att_base": 10})
    L.require("C05.R5", FT, fn, "NOMTXPOWER answers (0, [nominal power]) whatever attenuation SETPOWER configured", (0, ["37"]),
              (f.ret[0], list(f.ret[1])) if isinstance(f.ret, tuple) and len(f.ret) == 2 else f.ret)
    f = fold_parse_cmd(repo, ["SETPOWER", "20"])
    L.require("C05.R5", FT, fn, "SETPOWER stores the attenuation and answers 0", (0, 20), (f.ret, f.stores().get("tx_att_base")))
    # a malformed number is reported by ValueError (turned into status -1 by handle_rx), with no effect
    for req in (["RXTUNE", "abc"], ["SETPOWER", "x"], ["SETFORMAT", "1.5"], ["MEASURE", ""], ["SETFH", "a", "0", "1", "2"]):
        f = fold_parse_cmd(repo, req)
        L.ob("C05.R5", FT, fn, "CMD %s: a non-numeric argument raises ValueError before any effect" % " ".join(req),
             "ValueError, no calls", (f.raised, f.calls), f.raised == "ValueError" and not f.calls)


def _call_rows(fd, match, loops="body"):
    """Complete decision table of fd's body: for every valuation of its branch atoms, was a call matching
    `match(call_text)` executed (inside a condition or a simple statement)?  -> (atoms, [(assign, hit)])"""
    import itertools
    state = {"hit": False}

    def on_atom(t):
        if match(t):
            state["hit"] = True

    def ev(st):
        if isinstance(st, (ast.Return, ast.Assign, ast.AugAssign, ast.Expr, ast.Raise)):
            for c in calls_in(st):
                if match(canon(c)):
                    state["hit"] = True
            if isinstance(st, ast.Return):
                return ("ret",)
        return None
    W = Walker(ev, on_atom=on_atom, loops=loops)
    atoms = W.atoms(fd.body)
    if len(atoms) > 10:
        raise AnalysisError("%s: too many branch atoms for a decision table: %s" % (fd.name, atoms))
    rows = []
    for vals in itertools.product([False, True], repeat=len(atoms)):
        a = dict(zip(atoms, vals))
        state["hit"] = False
        W.locals = {}
        W.walk(fd.body, dict(a), [])
        rows.append((a, state["hit"]))
    return atoms, rows


def r7_none_frame(L, repo):
    """R7 (exactly one reply, MEASURE path): a frame number that may be None (an optional parameter left at its
    default) never reaches the hopping resolver, whose arithmetic would raise TypeError out of the command handler
    so that no reply is sent. Decided by two decision tables: the callee's (under which valuations of its own
    conditions does get_rx_freq/get_tx_freq call resolve(fn)) and the caller's (under which valuations is the call
    made); every row of the caller that makes the call must either know the argument is not None or contradict
    every resolving row of the callee."""
    tci = repo.need_class("transceiver", "Transceiver")
    FT_ = rel("transceiver")
    L.unit(FT_)
    need = {}
    for mname in ("get_rx_freq", "get_tx_freq"):
        c, m = repo.find_method(tci, mname)
        if m is None:
            raise AnalysisError("Transceiver.%s vanished" % mname)
        L.fn(FT_, "Transceiver." + mname)
        P = params(m)[1]
        from cmdfold import fold_freq_getter
        fo = fold_freq_getter(repo, mname)
        if fo is not None:
            # complete fold over the getter's state space (hopping configured or not), helpers included
            res = []
            if fo["hopping"][1]:
                res.append({"None is self.fh": False})
            if fo["fixed"][1]:
                res = [{}]
        else:
            atoms, rows = _call_rows(m, lambda t, P=P: (".resolve(%s)" % P) in t)
            res = [a for a, hit in rows if hit]
        if not res:
            raise AnalysisError("Transceiver.%s: no path resolves hopping by frame number" % mname)
        need[mname] = res
    hci = repo.need_class("gsm_shared", "HoppingParams")
    hc, hm = repo.find_method(hci, "resolve")
    if hm is None:
        raise AnalysisError("HoppingParams.resolve vanished")
    hp = params(hm)[1]
    arith = [n for n in ast.walk(hm) if isinstance(n, ast.BinOp) and any(isinstance(x, ast.Name) and x.id == hp for x in (n.left, n.right))]
    if not arith:
        raise AnalysisError("HoppingParams.resolve: the frame number is not used arithmetically any more; R7 needs re-derivation")
    nsites = 0
    for m in repo.tk_modules():
        for fd in [n for n in ast.walk(m.tree) if isinstance(n, ast.FunctionDef)]:
            opt = set()
            a_ = fd.args
            for p_, d in zip(a_.args[len(a_.args) - len(a_.defaults):], a_.defaults):
                if isinstance(d, ast.Constant) and d.value is None:
                    opt.add(p_.arg)
            for call in calls_in(fd):
                f = call.func
                if not (isinstance(f, ast.Attribute) and f.attr in need):
                    continue
                if qualname(call).split(".")[-1] != fd.name and getattr(call, "_func", fd) is not fd:
                    pass
                A = call.args[0] if call.args else None
                if A is None and not call.keywords:
                    continue
                if A is None:
                    A = call.keywords[0].value
                none_const = isinstance(A, ast.Constant) and A.value is None
                if not (none_const or (isinstance(A, ast.Name) and A.id in opt)):
                    continue
                # nested function defs are visited on their own
                owner = call
                while owner is not None and not isinstance(owner, ast.FunctionDef):
                    owner = getattr(owner, "_parent", None)
                if owner is not fd:
                    continue
                nsites += 1
                # a TypeError raised by the look-up is handled on the spot
                caught, q, prev = False, getattr(call, "_parent", None), call
                while q is not None and q is not fd:
                    if isinstance(q, ast.Try) and any(prev is x for x in q.body):
                        for h in q.handlers:
                            tn = None if h.type is None else canon(h.type)
                            if tn is None or "TypeError" in tn or tn in ("Exception", "BaseException"):
                                caught = True
                    prev, q = q, getattr(q, "_parent", None)
                if caught:
                    L.ob("C05.R7", m.rel, qualname(call), "`%s`: TypeError of the look-up is handled locally" % canon(call),
                         "handled", "handled", True, call.lineno)
                    continue
                recv = canon(f.value)
                ctext_ = canon(call)
                fn_ = qualname(call)
                L.unit(m.rel)
                L.fn(m.rel, fn_)
                atoms, rows = _call_rows(fd, lambda t, ctext_=ctext_: ctext_ in t)
                bad = []
                for a, hit in rows:
                    if not hit:
                        continue
                    if not none_const and a.get("None is %s" % A.id) is False:
                        continue
                    contradicted = True
                    for v in need[f.attr]:
                        c_ = False
                        for k, val in v.items():
                            k2 = re.sub(r"\bself\b", recv, k)
                            if k2 in a and a[k2] != val:
                                c_ = True
                        if not c_:
                            contradicted = False
                    if not contradicted:
                        bad.append({k: v for k, v in a.items()})
                L.ob("C05.R7", m.rel, fn_,
                     "`%s`: a frame number that may be None reaches the hopping resolver only when the transceiver does not hop" % ctext_,
                     [], bad[:3], not bad, call.lineno)
    L.floor("C05.R7", "frequency look-ups with an optional frame number", nsites, 1)


def run(L, tier):
    repo = Repo(L.repo)
    L.stage(r1_one_reply, L, repo)
    L.stage(r2_format, L, repo)
    if L.extra.get("c05_receive_path_folded"):
        L.structural("C05.R1 decision table and reply form of handle_rx", r1_one_reply, L, repo, True)
        L.structural("C05.R2 composition of the reply text in send_response", r2_format, L, repo, True)
    L.stage(r3_dispatch_returns, L, repo)
    got = L.stage(r4_verb_table, L, repo, tier)
    L.stage(r4_trxcon_sibling, L, repo, got)
    L.stage(r11_measure_result, L)
    L.stage(r5_effects, L, repo)
    L.stage(r7_none_frame, L, repo)
    from pyutil import memo_sound
    L.stage(memo_sound, L, repo, "C05.R8", ("ctrl_if", "ctrl_if_trx", "data_if", "udp_link"))
    from pyutil import hdr_ver_ownership
    L.stage(hdr_ver_ownership, L, repo, "C05.R9")
    from cmdfold import sim_cmd_effects
    L.stage(sim_cmd_effects, L, repo, "C05.R10")
